(* C01 at the authority level: in the NetworkAuthority model, for ANY driver list and ANY history
   of authority events (cycles, accepted commands whether or not their frames left the socket,
   received frames, waits, setup, teardown), every hydraulic-unit driver's command register holds
   the most recent ACCEPTED motion command (stop-all before any), and on every cycle the frames
   that driver contributes are exactly the encoding of that command.  The receive, tick and command
   tasks of the real daemon are clones sharing this context behind a mutex: an interleaving of
   their handlers is one such history. *)
From Coq Require Import ZArith List Bool Lia.
Import ListNotations.
Require Import GV.Model.J1939 GV.Model.Governor GV.Model.Hcu GV.Model.Object GV.Model.HcuUnit GV.Model.Units
  GV.Model.Volvo GV.Model.CanNet GV.Model.Authority GV.Model.Auth_io GV.Model.C01a_io
  GV.Spec.C02_spec GV.Spec.C01_spec GV.Proofs.C01_proof.
Local Open Scope Z_scope.

Definition hcu_inv (its : list ditem) (cur : motion) : Prop :=
  Forall (fun it => i_kind it = KHcu -> reg_inv (i_ctx it) cur) its.

Lemma hcu_inv_new now addr cs : hcu_inv (filter_map (new_item now addr) cs) StopAll.
Proof.
  induction cs as [|c cs IH]; cbn [filter_map]; [constructor|].
  unfold new_item at 1. destruct (kind_of_key (c_key c)); [|exact IH].
  constructor; [|exact IH]. cbn [i_kind i_ctx]. intros _. right. split; reflexivity.
Qed.

(* same kind, same configuration after every step: used to speak about "that driver" *)
Lemma item_trigger_kind it now o : i_kind (fst (item_trigger it now o)) = i_kind it
  /\ i_cfg (fst (item_trigger it now o)) = i_cfg it.
Proof.
  unfold item_trigger. destruct (i_kind it) eqn:K; try (split; [exact K | reflexivity]).
  - destruct (hcu_trigger (i_cfg it) (i_ctx it) o). cbn. split; [exact K | reflexivity].
  - destruct (volvo_trigger _ _ _ _). cbn. split; [exact K | reflexivity].
Qed.

Lemma on_command_motion its now m cur :
  hcu_inv its cur -> hcu_inv (fst (on_command_items its now (OMotion m))) m.
Proof.
  induction its as [|it t IH]; intros H; cbn [on_command_items]; [constructor|].
  inversion H as [|x l Hx Hl]; subst. specialize (IH Hl).
  generalize (item_trigger_kind it now (OMotion m)).
  destruct (item_trigger it now (OMotion m)) as [it' fs] eqn:E.
  destruct (on_command_items t now (OMotion m)) as [t' fs']. cbn [fst] in *. intros [K' _].
  constructor; [|exact IH].
  intros K. rewrite K in K'. unfold item_trigger in E. rewrite <- K' in E. cbn in E. injection E as <- _.
  cbn [i_ctx with_ctx]. left. reflexivity.
Qed.

Lemma item_trigger_other it now o cur : (forall m, o <> OMotion m) ->
  (i_kind it = KHcu -> reg_inv (i_ctx it) cur) ->
  (i_kind (fst (item_trigger it now o)) = KHcu -> reg_inv (i_ctx (fst (item_trigger it now o))) cur).
Proof.
  intros Ho H. unfold item_trigger. destruct (i_kind it) eqn:K; cbn [fst]; try (intros K'; congruence).
  - rewrite (hcu_trigger_other _ _ _ Ho). cbn [fst with_ctx i_kind i_ctx]. intros _. apply H. reflexivity.
  - destruct (volvo_trigger _ _ _ _). cbn [fst with_ctx i_kind]. intros K'. congruence.
Qed.
Lemma on_command_other its now o cur : (forall m, o <> OMotion m) ->
  hcu_inv its cur -> hcu_inv (fst (on_command_items its now o)) cur.
Proof.
  intros Ho. induction its as [|it t IH]; intros H; cbn [on_command_items]; [constructor|].
  inversion H as [|x l Hx Hl]; subst.
  generalize (item_trigger_other it now o cur Ho Hx).
  destruct (item_trigger it now o) as [it' fs].
  specialize (IH Hl). destruct (on_command_items t now o) as [t' fs']. cbn [fst] in *.
  intros Hit. constructor; assumption.
Qed.

Definition accept (cur : motion) (o : object) : motion := match o with OMotion m => m | _ => cur end.
Lemma on_command_any its now o cur :
  hcu_inv its cur -> hcu_inv (fst (on_command_items its now o)) (accept cur o).
Proof.
  destruct o; cbn [accept]; try (apply on_command_other; intros m0 E; discriminate E). apply on_command_motion.
Qed.

Lemma unit_recv_tx k u c f : k = KHcu -> tx_last (r_ctx (unit_recv k u c f)) = tx_last c.
Proof. intros ->. apply hcu_recv_tx. Qed.

Lemma scan_items_inv its now f cur : hcu_inv its cur -> hcu_inv (fst (scan_items its now f)) cur.
Proof.
  induction its as [|it t IH]; intros H; cbn [scan_items]; [constructor|].
  inversion H as [|x l Hx Hl]; subst.
  destruct (r_sigs (unit_recv (i_kind it) (i_cfg it) (i_ctx it) f)) eqn:S.
  - specialize (IH Hl). destruct (scan_items t now f) as [t' s]. cbn [fst] in *.
    constructor; [|exact IH]. cbn [with_ctx i_kind i_ctx]. intros K.
    unfold reg_inv in *. rewrite (unit_recv_tx _ _ _ _ K). apply Hx. exact K.
  - cbn [fst]. constructor; [|exact Hl]. cbn [with_ctx i_kind i_ctx]. intros K.
    unfold reg_inv in *. cbn [rx_mark tx_last]. rewrite (unit_recv_tx _ _ _ _ K). apply Hx. exact K.
Qed.

Lemma tick_items_inv a now cur : hcu_inv (a_items a) cur -> hcu_inv (a_items (to_auth (auth_on_tick a now))) cur.
Proof.
  unfold auth_on_tick. cbn [to_auth a_items]. generalize (a_items a). intros its H.
  induction H as [|it t Hx Hl IH]; cbn [map]; [constructor|].
  constructor; [|exact IH]. unfold item_status. cbn [fst i_kind i_ctx]. exact Hx.
Qed.

(* the running invariant over whole histories *)
Fixpoint last_accepted (acc : motion) (evs : list a01event) : motion :=
  match evs with
  | [] => acc
  | A01 (ACmd (OMotion m)) :: t | A01Fail (OMotion m) :: t => last_accepted m t
  | _ :: t => last_accepted acc t
  end.

Lemma last_accepted_cmd cur ob : last_accepted cur [A01 (ACmd ob)] = accept cur ob.
Proof. destruct ob; reflexivity. Qed.
Lemma last_accepted_fail cur ob : last_accepted cur [A01Fail ob] = accept cur ob.
Proof. destruct ob; reflexivity. Qed.

Lemma a01step_inv a now e cur :
  hcu_inv (a_items a) cur ->
  hcu_inv (a_items (fst (fst (a01step a now e)))) (last_accepted cur [e]).
Proof.
  intros H. destruct e as [e|o].
  - destruct e as [raw| |ob|ms| |].
    + cbn [a01step astep1 last_accepted]. destruct (of_can_frame raw) as [f|]; [|exact H].
      unfold auth_recv. destruct (id_pgn (f_id (normalise f)) =? PGN_REQUEST); [exact H|].
      generalize (scan_items_inv (a_items a) now (normalise f) cur H).
      destruct (scan_items (a_items a) now (normalise f)) as [its sigs]. cbn [fst a_items]. auto.
    + cbn [a01step astep1 last_accepted fst]. apply tick_items_inv. exact H.
    + rewrite last_accepted_cmd. cbn [a01step astep1]. unfold auth_on_command.
      generalize (on_command_any (a_items a) now ob cur H).
      destruct (on_command_items (a_items a) now ob) as [its fs]. cbn [fst a_items]. auto.
    + exact H.
    + exact H.
    + exact H.
  - rewrite last_accepted_fail. cbn [a01step fst]. unfold auth_on_command.
    generalize (on_command_any (a_items a) now o cur H).
    destruct (on_command_items (a_items a) now o) as [its fs]. cbn [fst a_items]. auto.
Qed.

Lemma last_accepted_cons cur e t : last_accepted cur (e :: t) = last_accepted (last_accepted cur [e]) t.
Proof. destruct e as [[raw| |ob|ms| |]|ob]; try reflexivity; destruct ob; reflexivity. Qed.

Theorem authority_register : forall evs a now cur,
  hcu_inv (a_items a) cur ->
  hcu_inv (a_items (fst (a01after a now evs))) (last_accepted cur evs).
Proof.
  induction evs as [|e t IH]; intros a now cur H; cbn [a01after]; [exact H|].
  generalize (a01step_inv a now e cur H).
  destruct (a01step a now e) as [[a' now'] s]. cbn [fst]. intros H'.
  rewrite last_accepted_cons. apply IH. exact H'.
Qed.

(* what a cycle sends for each hydraulic unit *)
Lemma tick_frames_hcu it now cur : i_kind it = KHcu -> reg_inv (i_ctx it) cur ->
  item_tick_frames it now = encode_motion (u_da (i_cfg it)) (u_sa (i_cfg it)) cur.
Proof. intros K H. unfold item_tick_frames. rewrite K. unfold hcu_tick. rewrite (tick_motion_inv _ _ H). reflexivity. Qed.

(* from a freshly constructed authority (any configuration), after ANY history: every hydraulic
   unit driver re-asserts, on the next cycle, exactly the most recent accepted motion command *)
Theorem authority_reasserts addr nm cs evs :
  let a := fst (a01after (auth_new 0 addr nm cs) 0 evs) in
  forall it now, In it (a_items a) -> i_kind it = KHcu ->
    item_tick_frames it now = encode_motion (u_da (i_cfg it)) (u_sa (i_cfg it)) (last_accepted StopAll evs).
Proof.
  cbv zeta. intros it now Hin K.
  generalize (authority_register evs (auth_new 0 addr nm cs) 0 StopAll (hcu_inv_new 0 addr cs)).
  intros H. unfold hcu_inv in H. rewrite Forall_forall in H. apply tick_frames_hcu; [exact K | apply H; assumption].
Qed.

(* and the cycle's frames are the setup prefix (first cycle only) followed by each driver's frames in order *)
Lemma tick_frames_shape a now :
  to_frames (auth_on_tick a now)
  = (if a_setup a then [] else flat_map (fun it => setup_frames (i_kind it) (i_cfg it)) (a_items a))
    ++ flat_map (fun it => item_tick_frames it now) (a_items a).
Proof. reflexivity. Qed.

(* the model's observation list is the step outputs along the same transitions *)
Lemma a01run_after a now evs e :
  a01run a now (evs ++ [e]) = a01run a now evs ++ [snd (a01step (fst (a01after a now evs)) (snd (a01after a now evs)) e)].
Proof.
  revert a now. induction evs as [|x t IH]; intros a now; cbn [app a01run a01after].
  - cbn [fst snd]. destruct (a01step a now e) as [[a' now'] s]. reflexivity.
  - destruct (a01step a now x) as [[a' now'] s]. cbn [app]. rewrite IH. reflexivity.
Qed.

(* astep1 is the transition function of Auth_io.arun (the model the C10/C11/C20 checks run) *)
Lemma arun_astep1 a now e t :
  arun a now (e :: t) = let '(a', now', s) := astep1 a now e in s :: arun a' now' t.
Proof.
  destruct e as [raw| |ob|ms| |]; cbn [arun astep1]; try reflexivity.
  - destruct (of_can_frame raw) as [f|]; [|reflexivity].
    destruct (auth_recv a now (normalise f)) as [[a' rs] sigs]. reflexivity.
  - destruct (auth_on_command a now ob) as [a' fs]. reflexivity.
Qed.
