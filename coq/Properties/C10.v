(* C10 — Module status is truthful and fresh. *)
From Coq Require Import ZArith List Bool.
Import ListNotations.
Require Import GV.Gen.Consts GV.Model.Outcome GV.Model.J1939 GV.Model.Governor GV.Model.Hcu GV.Model.Object
  GV.Model.HcuUnit GV.Model.Units GV.Model.Volvo GV.Model.Authority GV.Proofs.C10_proof
  GV.Model.CanNet GV.Model.Auth_io GV.Spec.C10_spec GV.Proofs.C10_whole GV.Proofs.C10_names GV.Model.C10_io GV.Proofs.C10_fail.
Local Open Scope Z_scope.

(* Healthy is published only if at least one message has been accepted and the last one is
   younger than the timeout (for every unit state reachable by cycles: last_inv is preserved) *)
Theorem C10_healthy_sound : forall it tick now it',
  last_inv it -> item_status it tick now = (it', Some HEALTHY) -> 0 < rx_count (i_ctx it) /\ timed_out it now = false.
Proof. exact healthy_sound. Qed.
Check C10_healthy_sound : forall it tick now it',
  last_inv it -> item_status it tick now = (it', Some HEALTHY) -> 0 < rx_count (i_ctx it) /\ timed_out it now = false.
Print Assumptions C10_healthy_sound.

Theorem C10_invariant_preserved : forall it tick now, last_inv it -> last_inv (fst (item_status it tick now)).
Proof. exact item_status_inv. Qed.
Print Assumptions C10_invariant_preserved.

Theorem C10_timeout : forall it tick now,
  timed_out it now = true ->
  i_last (fst (item_status it tick now)) = Some TIMEOUT
  /\ (i_last it <> Some TIMEOUT -> snd (item_status it tick now) = Some TIMEOUT).
Proof. exact timeout_published. Qed.
Print Assumptions C10_timeout.

Theorem C10_recovers : forall it tick now,
  timed_out it now = false -> 0 < rx_count (i_ctx it) -> i_last it <> Some HEALTHY ->
  snd (item_status it tick now) = Some HEALTHY.
Proof. exact recovers. Qed.
Print Assumptions C10_recovers.

(* published at every change and at every tenth cycle, and only then *)
Theorem C10_on_change_and_every_tenth : forall it tick now s,
  snd (item_status it tick now) = Some s <->
  i_last (fst (item_status it tick now)) = Some s
  /\ (tick mod status_refresh_cycles = 0 \/ i_last (fst (item_status it tick now)) <> i_last it).
Proof. exact published_iff. Qed.
Print Assumptions C10_on_change_and_every_tenth.

Theorem C10_silent_start : forall it tick now,
  rx_count (i_ctx it) = 0 -> timed_out it now = false -> i_last it = None -> item_status it tick now = (it, None).
Proof. exact silent_start. Qed.
Print Assumptions C10_silent_start.

(* receive side, driver lists of any length: only a unit whose address is the frame's source is
   marked, it is stamped with the current time, nobody else's bookkeeping moves *)
Theorem C10_receive_bookkeeping : forall its now f,
  Forall2 (fun it it' =>
     i_kind it' = i_kind it /\ i_cfg it' = i_cfg it /\ i_last it' = i_last it /\ i_timeout it' = i_timeout it
     /\ rx_count (i_ctx it) <= rx_count (i_ctx it')
     /\ (rx_count (i_ctx it') = rx_count (i_ctx it) -> i_rx_time it' = i_rx_time it)
     /\ (rx_count (i_ctx it) < rx_count (i_ctx it') -> i_rx_time it' = now /\ id_sa (f_id f) = u_da (i_cfg it)))
    its (fst (scan_items its now f)).
Proof. exact scan_marks. Qed.
Print Assumptions C10_receive_bookkeeping.

(* ---- whole histories: the authority model and an independent reference bookkeeping (heard /
   time of the last accepted message / previously published status per unit, Spec/C10_spec.v) are
   stepped side by side over ANY history of received frames, cycles, commands, non-negative waits,
   setup and teardown, from ANY driver configuration: in every cycle, for every unit, the decided
   status satisfies the C10 cycle predicate (truthful; published exactly on change or on every
   tenth cycle; silent before the first message) ---- *)
Theorem C10_whole_history : forall addr nm cs evs,
  forallb (fun e => match e with AWait ms => 0 <=? ms | _ => true end) evs = true ->
  walk_model (auth_new 0 addr nm cs) (filter_map (uref_of addr) cs) 0 evs = true.
Proof. exact c10_whole_history_from_start. Qed.
Check C10_whole_history : forall addr nm cs evs,
  forallb (fun e => match e with AWait ms => 0 <=? ms | _ => true end) evs = true ->
  walk_model (auth_new 0 addr nm cs) (filter_map (uref_of addr) cs) 0 evs = true.
Print Assumptions C10_whole_history.
(* and what is judged there is what the model publishes *)
Theorem C10_cycle_publishes_decisions : forall a now,
  to_status (auth_on_tick a now)
  = flat_map (fun it => match snd (item_status it (a_tick a) now) with
                        | Some s => [(i_cfg (fst (item_status it (a_tick a) now)), i_kind (fst (item_status it (a_tick a) now)), s)]
                        | None => [] end) (a_items a).
Proof. exact tick_publishes. Qed.
Print Assumptions C10_cycle_publishes_decisions.

(* ---- end to end: the very predicate the check evaluates on the real publications (statuses
   matched to units by their canonical names, exactly one per name, nothing under a foreign
   name) holds of the authority model for EVERY well-formed case: any driver configuration with
   distinct unit names, any history with non-negative waits ---- *)
Theorem C10 : forall c, c10_wf c = true -> c10_spec_ok c (amodel c) = true.
Proof. exact c10_holds_all. Qed.
Check C10 : forall c, c10_wf c = true -> c10_spec_ok c (amodel c) = true.
Print Assumptions C10.

(* ... also when the interface refuses every write during some of the control cycles (FTickFail): the
   statuses of all units are derived and published exactly as in the same history with working cycles *)
Theorem C10_under_write_failures : forall c fe,
  ac_events c = map ferase fe -> c10_wf c = true -> c10_spec_ok c (fmodel c fe) = true.
Proof. exact c10_under_write_failures. Qed.
Check C10_under_write_failures : forall c fe,
  ac_events c = map ferase fe -> c10_wf c = true -> c10_spec_ok c (fmodel c fe) = true.
Print Assumptions C10_under_write_failures.

(* the premise of abstracting from time in this property's model: the code it models waits, polls and gives up
   with exactly the kinds of primitives the model accounts for (codes in Proofs/W_*.v); re-extracted from the source on every run *)
Require Import GV.Gen.Consts GV.Proofs.W_authority GV.Proofs.W_j1939.
Theorem C10_time_abstraction : waits_authority = (@nil Z) /\ waits_j1939 = (@cons Z 7%Z (@cons Z 8%Z (@nil Z))).
Proof. exact (conj w_authority w_j1939). Qed.
Check C10_time_abstraction : waits_authority = (@nil Z) /\ waits_j1939 = (@cons Z 7%Z (@cons Z 8%Z (@nil Z))).
Print Assumptions C10_time_abstraction.
