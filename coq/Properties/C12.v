(* C12 — Sensor and status frames decode to the right signals. *)
From Coq Require Import ZArith List Bool.
Import ListNotations.
Require Import GV.Gen.Consts GV.Model.Outcome GV.Model.J1939 GV.Model.Governor GV.Model.Hcu GV.Model.Object
  GV.Model.HcuUnit GV.Model.Units GV.Spec.Units_spec GV.Proofs.Units_proof GV.Proofs.C12_history.
Local Open Scope Z_scope.

(* for ALL 2^64 payloads, all identifiers and configurations: encoder position / error class,
   inclinometer slopes, EEC1 demand/load/rpm/state, hydraulic lock bit, errors keep the measurement *)
Theorem C12 : forall c, ucase_wf c = true -> c12_spec_ok c (unit_model c) = true.
Proof. exact c12_holds. Qed.
Check C12 : forall c, ucase_wf c = true -> c12_spec_ok c (unit_model c) = true.
Print Assumptions C12.

Theorem C12_eec1_fields : forall d, bytes8 d ->
  let raw := le16 d 3 in let e := eec1_engine d in
  e_rpm e = (if raw =? 65535 then 0 else Z.min 8031 (raw / 8))
  /\ e_demand e = (let b := nth 1 d 255 in if b =? 255 then 0 else Z.min 125 (Z.max 0 (b - 125)))
  /\ e_actual e = (let b := nth 2 d 255 in if b =? 255 then 0 else Z.min 125 (Z.max 0 (b - 125))).
Proof. exact eec1_fields. Qed.
Print Assumptions C12_eec1_fields.

Theorem C12_never_running_at_zero : forall d, bytes8 d ->
  let e := eec1_engine d in
  (e_state e = Request -> 0 < e_rpm e)
  /\ ((let n := nth 6 d 255 mod 16 in n = 1 \/ n = 2) -> e_state e = Starting).
Proof. exact eec1_state. Qed.
Print Assumptions C12_never_running_at_zero.

(* ... and from ANY driver context, in particular after any history of frames: what a frame means does
   not depend on what the driver saw before *)
Theorem C12_any_context : forall c x, ucase_wf c = true ->
  c12_spec_ok c (Ok (unit_recv (uc_kind c) (uc_u c) x (uc_frame c))) = true.
Proof. exact c12_any_context. Qed.
Check C12_any_context : forall c x, ucase_wf c = true ->
  c12_spec_ok c (Ok (unit_recv (uc_kind c) (uc_u c) x (uc_frame c))) = true.
Print Assumptions C12_any_context.
Theorem C12_any_history : forall c fs, ucase_wf c = true ->
  c12_spec_ok c (Ok (unit_recv (uc_kind c) (uc_u c) (ctx_after (uc_kind c) (uc_u c) fs) (uc_frame c))) = true.
Proof. exact c12_any_history. Qed.
Check C12_any_history : forall c fs, ucase_wf c = true ->
  c12_spec_ok c (Ok (unit_recv (uc_kind c) (uc_u c) (ctx_after (uc_kind c) (uc_u c) fs) (uc_frame c))) = true.
Print Assumptions C12_any_history.

(* the premise of abstracting from time in this property's model: the code it models waits, polls and gives up
   with exactly the kinds of primitives the model accounts for (codes in Proofs/W_*.v); re-extracted from the source on every run *)
Require Import GV.Gen.Consts GV.Proofs.W_engine GV.Proofs.W_hydraulic.
Theorem C12_time_abstraction : waits_engine = (@nil Z) /\ waits_hydraulic = (@nil Z).
Proof. exact (conj w_engine w_hydraulic). Qed.
Check C12_time_abstraction : waits_engine = (@nil Z) /\ waits_hydraulic = (@nil Z).
Print Assumptions C12_time_abstraction.

(* which joint, engine or hydraulic bank a frame speaks about is its sender: a frame from any other address
   yields no measurement from this unit *)
Theorem C12_foreign_senders : forall c, ucase_wf c = true -> c12_foreign_ok c (unit_model c) = true.
Proof. exact c12_foreign. Qed.
Check C12_foreign_senders : forall c, ucase_wf c = true -> c12_foreign_ok c (unit_model c) = true.
Print Assumptions C12_foreign_senders.

(* the engine state published for an EEC1 frame is the reference table of starter mode and speed - in particular
   reserved and error starter modes mean "not running", whatever the speed *)
Theorem C12_engine_state_table : forall c, ucase_wf c = true -> c12_state_ok c (unit_model c) = true.
Proof. exact c12_state. Qed.
Check C12_engine_state_table : forall c, ucase_wf c = true -> c12_state_ok c (unit_model c) = true.
Print Assumptions C12_engine_state_table.
