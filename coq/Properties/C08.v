(* C08 — Engine control frames follow the governor over any history; stop is honoured. *)
From Coq Require Import ZArith List Bool.
Import ListNotations.
Require Import GV.Gen.Consts GV.Model.Outcome GV.Model.J1939 GV.Model.Governor GV.Model.Hcu GV.Model.Object
  GV.Model.HcuUnit GV.Model.Units GV.Model.Volvo GV.Spec.C08_spec GV.Proofs.C08_proof.
Local Open Scope Z_scope.

(* for EVERY history of EEC1 status frames (all 2^64 payloads), engine commands, other commands,
   cycles and waits of any length: every emitted frame is well formed (valid state code, speed
   byte = rpm/10 within [80, 210]), equals the governor's decision for the latest status and the
   latest command, a shutdown command yields the shutdown code while the engine reports running
   and never a start code, and no start code is sent once the command is older than the timeout *)
Theorem C08 : forall c, c08_wf c = true -> c08_spec_ok c (c08_model c) = true.
Proof. exact c08_holds. Qed.
Check C08 : forall c, c08_wf c = true -> c08_spec_ok c (c08_model c) = true.
Print Assumptions C08.

Theorem C08_same_meaning : forall idle max sig cmd rpm,
  next_state idle max sig cmd rpm Young = next_state idle max sig cmd rpm NoAge.
Proof. exact c08_same_meaning. Qed.
Print Assumptions C08_same_meaning.

Theorem C08_governor_envelope : forall sig cmd rpm a, exists e,
  next_state volvo_rpm_idle volvo_rpm_max sig cmd rpm a = Ok e
  /\ 800 <= e_rpm e <= 2100
  /\ (e_state e = Starting -> a <> Old /\ (cmd = Starting \/ cmd = Request \/ sig = Starting))
  /\ (cmd = NoRequest -> e_state e <> Starting)
  /\ (cmd = NoRequest -> sig = Request -> e_state e = Stopping).
Proof. exact gov_ok. Qed.
Print Assumptions C08_governor_envelope.
