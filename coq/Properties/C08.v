(* C08 — Engine control frames follow the governor over any history; stop is honoured. *)
From Coq Require Import ZArith List Bool.
Import ListNotations.
Require Import GV.Gen.Consts GV.Model.Outcome GV.Model.J1939 GV.Model.Governor GV.Model.Hcu GV.Model.Object
  GV.Model.HcuUnit GV.Model.Units GV.Model.Volvo GV.Spec.C08_spec GV.Proofs.C08_proof
  GV.Model.Sched GV.Proofs.Sched_proof.
Local Open Scope Z_scope.

(* for EVERY history of EEC1 status frames (all 2^64 payloads), engine commands, other commands,
   cycles and waits of any length: every emitted frame is well formed (valid state code, speed
   byte = rpm/10 within [80, 210]), equals the governor's decision for the latest status and the
   latest command, a shutdown command yields the shutdown code while the engine reports running
   and never a start code, and no start code is sent once the command is older than the timeout *)
Theorem C08 : forall c, c08_wf c = true -> c08_spec_ok c (c08_model c) = true.
Proof. exact c08_holds. Qed.
Check C08 : forall c, c08_wf c = true -> c08_spec_ok c (c08_model c) = true.
Print Assumptions C08.

Theorem C08_same_meaning : forall idle max sig cmd rpm,
  next_state idle max sig cmd rpm Young = next_state idle max sig cmd rpm NoAge.
Proof. exact c08_same_meaning. Qed.
Print Assumptions C08_same_meaning.

Theorem C08_governor_envelope : forall sig cmd rpm a, exists e,
  next_state volvo_rpm_idle volvo_rpm_max sig cmd rpm a = Ok e
  /\ 800 <= e_rpm e <= 2100
  /\ (e_state e = Starting -> a <> Old /\ (cmd = Starting \/ cmd = Request \/ sig = Starting))
  /\ (cmd = NoRequest -> e_state e <> Starting)
  /\ (cmd = NoRequest -> sig = Request -> e_state e = Stopping).
Proof. exact gov_ok. Qed.
Print Assumptions C08_governor_envelope.

(* ---- every interleaving (Model/Sched.v): tick = read status; read command (+ age); emit,
   trigger = read status; store command; emit, in any order with the receive task ---- *)
(* every frame a cycle puts on the bus is ONE well-formed speed-control frame carrying a governor
   decision for an accepted command (or none): speed within [800, 2100], a valid state code *)
Theorem C08_all_schedules_emissions : forall u evs s, vreg_ok s -> vtick_ok u s ->
  Forall2 (fun e out => e = VTickEmit -> out = [] \/
             exists code rpm, out = [speed_control (u_sa u) code rpm] /\ 800 <= rpm <= 2100
                              /\ (code = CODE_NOMINAL \/ code = CODE_STARTING \/ code = CODE_SHUTDOWN))
          evs (vmrun u s evs).
Proof. exact vsched_emissions. Qed.
Print Assumptions C08_all_schedules_emissions.
(* stop is honoured under every interleaving: a cycle whose second read finds the shutdown command
   decides on a frame without the start code — the shutdown code when the status it read says
   running — however stale that status is; the decision cannot change before it is sent *)
Theorem C08_stop_honoured_all_schedules : forall u s sig,
  m_tick s = TSig sig -> tx_last (v_ctx (m_v s)) = Some (OEngine engine_off) ->
  exists code rpm,
    m_tick (fst (vmstep u s VTickRead2)) = TReady [speed_control (u_sa u) code rpm]
    /\ code <> CODE_STARTING /\ (e_state sig = Request -> code = CODE_SHUTDOWN).
Proof. exact vsched_stop_honoured. Qed.
Print Assumptions C08_stop_honoured_all_schedules.
Theorem C08_decision_is_what_leaves : forall u s fs,
  m_tick s = TReady fs ->
  (forall e, e <> VTickEmit -> m_tick (fst (vmstep u s e)) = TReady fs) /\ snd (vmstep u s VTickEmit) = fs.
Proof. exact vsched_decision_leaves. Qed.
Print Assumptions C08_decision_is_what_leaves.
Theorem C08_sequential_is_a_schedule : forall u evs v now,
  (forall o, In (VOther o) evs -> forall e, o <> OEngine e) ->
  concat (vmrun u {| m_v := v; m_now := now; m_tick := TIdle; m_cmd := CIdle |} (flat_map (fun e => vseq_of e u) evs))
  = concat (volvo_run u v now evs).
Proof. exact vsched_sequential. Qed.
Print Assumptions C08_sequential_is_a_schedule.

(* the premise of abstracting from time in this property's model: the code it models waits, polls and gives up
   with exactly the kinds of primitives the model accounts for (codes in Proofs/W_*.v); re-extracted from the source on every run *)
Require Import GV.Gen.Consts GV.Proofs.W_governor GV.Proofs.W_volvo GV.Proofs.W_engine.
Theorem C08_time_abstraction : waits_governor = (@cons Z 7%Z (@nil Z)) /\ waits_volvo = (@nil Z) /\ waits_engine = (@nil Z).
Proof. exact (conj w_governor (conj w_volvo w_engine)). Qed.
Check C08_time_abstraction : waits_governor = (@cons Z 7%Z (@nil Z)) /\ waits_volvo = (@nil Z) /\ waits_engine = (@nil Z).
Print Assumptions C08_time_abstraction.

(* the governor inside the engine driver model is the source: Governor::next_state as translated from
   driver/governor.rs on every run computes exactly the model function the theorems above use *)
Require Import GV.Proofs.C07_source.
Theorem C08_governor_is_translated_source : forall idle max sig cmd cmd_rpm a,
  GV.Gen.Consts.governor_translated = true ->
  next_state_src idle max sig cmd cmd_rpm a = Some (GV.Model.Governor.next_state idle max sig cmd cmd_rpm a).
Proof. exact next_state_is_the_source. Qed.
Check C08_governor_is_translated_source : forall idle max sig cmd cmd_rpm a,
  GV.Gen.Consts.governor_translated = true ->
  next_state_src idle max sig cmd cmd_rpm a = Some (GV.Model.Governor.next_state idle max sig cmd cmd_rpm a).
Print Assumptions C08_governor_is_translated_source.
