(* C18 — Operator front-ends: locked means locked, limits hold, CLI sends what it says. *)
From Coq Require Import ZArith List Bool.
Import ListNotations.
Require Import GV.Gen.Consts GV.Model.Governor GV.Model.Hcu GV.Model.Input GV.Spec.C18_spec GV.Proofs.C18_proof.
Local Open Scope Z_scope.

(* for EVERY control mode, EVERY interlock state satisfying the engine-request invariant, and EVERY
   record of the four joystick types (any button/axis number, the full i16 value range): the record
   is processed without crashing; while the motion lock is engaged nothing but stop, resume and
   neutral is produced; pressing Abort produces stop-all and engages the lock; actuator values are
   zero or beyond the deadband and at most half scale in the limited directions while limiting is
   on; engine requests are shutdown or within 900..2100 rpm; and the invariant is preserved *)
Theorem C18 : forall c, c18_wf c = true -> c18_spec_ok c (c18_model c) = true.
Proof. exact c18_holds. Qed.
Check C18 : forall c, c18_wf c = true -> c18_spec_ok c (c18_model c) = true.
Print Assumptions C18.

(* hence along event sequences of ANY length *)
Theorem C18_sequences : forall m evs d,
  rpm_ok (engine_rpm (d_in d)) = true ->
  Forall (fun r => let '(ty, num, v) := r in -32768 <= v < 32768 /\ 0 <= num < 256 /\ etype_of ty <> None) evs ->
  rpm_ok (engine_rpm (d_in (fold_left (fun d r => let '(ty, num, v) := r in
                                          match daemon_step m d ty num v with Some (d', _) => d' | None => d end) evs d))) = true.
Proof. exact c18_invariant_sequences. Qed.
Print Assumptions C18_sequences.

Theorem C18_start_locked : forall full, motion_lock (d_in (start_state full)) = true
  /\ limit_motion (d_in (start_state full)) = negb full /\ rpm_ok (engine_rpm (d_in (start_state full))) = true.
Proof. intros []; repeat split. Qed.
Print Assumptions C18_start_locked.

Theorem C18_cli_true : forall w, word_bool w = Some true <->
  map lower w = [49] \/ map lower w = [111; 110] \/ map lower w = [116; 114; 117; 101].
Proof. exact word_bool_true_iff. Qed.
Print Assumptions C18_cli_true.

Theorem C18_cli_false : forall w, word_bool w = Some false <->
  map lower w = [48] \/ map lower w = [111; 102; 102] \/ map lower w = [102; 97; 108; 115; 101].
Proof. exact word_bool_false_iff. Qed.
Print Assumptions C18_cli_false.

(* the premise of abstracting from time in this property's model: the code it models waits, polls and gives up
   with exactly the kinds of primitives the model accounts for (codes in Proofs/W_*.v); re-extracted from the source on every run *)
Require Import GV.Gen.Consts GV.Proofs.W_input_main GV.Proofs.W_input_input GV.Proofs.W_input_joystick GV.Proofs.W_control_main.
Theorem C18_time_abstraction : waits_input_main = (@nil Z) /\ waits_input_input = (@nil Z) /\ waits_input_joystick = (@nil Z) /\ waits_control_main = (@nil Z).
Proof. exact (conj w_input_main (conj w_input_input (conj w_input_joystick w_control_main))). Qed.
Check C18_time_abstraction : waits_input_main = (@nil Z) /\ waits_input_input = (@nil Z) /\ waits_input_joystick = (@nil Z) /\ waits_control_main = (@nil Z).
Print Assumptions C18_time_abstraction.
