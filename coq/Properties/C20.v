(* C20 — J1939 node identity and configuration fidelity. *)
From Coq Require Import ZArith List Bool.
Import ListNotations.
Require Import GV.Gen.Consts GV.Model.Outcome GV.Model.J1939 GV.Model.Governor GV.Model.Hcu GV.Model.Object
  GV.Model.HcuUnit GV.Model.Units GV.Model.Volvo GV.Model.CanNet GV.Model.Authority GV.Model.Auth_io GV.Spec.C20_spec GV.Proofs.C20_proof.
Local Open Scope Z_scope.

Theorem C20_name_layout : forall n, name_in_range n = true -> name_bytes n = le64 (name_value n).
Proof. exact name_layout. Qed.
Check C20_name_layout : forall n, name_in_range n = true -> name_bytes n = le64 (name_value n).
Print Assumptions C20_name_layout.

(* for EVERY value of the (wider) configuration fields: the layout of the fields reduced to their widths *)
Theorem C20_name_layout_any : forall n, name_bytes n = le64 (name_value (name_norm n)).
Proof. exact name_layout_any. Qed.
Check C20_name_layout_any : forall n, name_bytes n = le64 (name_value (name_norm n)).
Print Assumptions C20_name_layout_any.

Theorem C20_name_roundtrip : forall n, name_in_range n = true ->
  match name_bytes n with
  | [b0; b1; b2; b3; b4; b5; b6; b7] =>
      b0 + 256 * b1 + 65536 * (b2 mod 32) = 1
      /\ b2 / 32 + 8 * b3 = n_mfr n /\ b4 / 8 = n_finst n /\ b4 mod 8 = n_ecu n /\ b5 = n_func n
      /\ b6 / 2 = n_vs n /\ b7 mod 16 = n_vsi n /\ (b7 / 16) mod 8 = n_ig n /\ b7 / 128 = 0
  | _ => False end.
Proof. exact name_roundtrip. Qed.
Print Assumptions C20_name_roundtrip.

(* for EVERY configuration: the units driven are exactly the entries with a known (vendor, product),
   in order, each with its unit address and the network's or overridden source address *)
Theorem C20_units : forall now addr n cs,
  map (fun it => (kind_key (i_kind it), u_da (i_cfg it), u_sa (i_cfg it))) (a_items (auth_new now addr n cs))
  = flat_map (fun d => match kind_of_key (c_key d) with
                       | Some _ => [(c_key d, c_da d, match c_sa d with Some s => s | None => addr end)]
                       | None => [] end) cs.
Proof. exact units_exact. Qed.
Print Assumptions C20_units.

Theorem C20_unknown_skipped : forall now addr n cs1 d cs2, kind_of_key (c_key d) = None ->
  a_items (auth_new now addr n (cs1 ++ d :: cs2)) = a_items (auth_new now addr n (cs1 ++ cs2)).
Proof. exact unknown_skipped. Qed.
Print Assumptions C20_unknown_skipped.

Theorem C20_setup_addressing : forall k u f, 0 <= u_da u < 256 -> 0 <= u_sa u < 256 ->
  In f (setup_frames k u) -> id_pgn (f_id f) = PGN_REQUEST -> id_da (f_id f) = Some (u_da u) /\ id_sa (f_id f) = u_sa u.
Proof. exact setup_addressing. Qed.
Print Assumptions C20_setup_addressing.

Theorem C20_responds : forall a f,
  auth_request_reply a f <> [] <->
  id_da (f_id f) = Some (a_addr a)
  /\ (requested_pgn (f_data f) = PGN_ADDRESS_CLAIMED \/ requested_pgn (f_data f) = PGN_SOFTWARE_IDENT \/ requested_pgn (f_data f) = PGN_TIME_DATE).
Proof. exact responds_iff. Qed.
Print Assumptions C20_responds.

(* every driver's own vendor()/product() is a factory key yielding that driver (clone() cannot fail) *)
Theorem C20_factory_consistent :
  forallb (fun r => match find (fun t => (if list_eq_dec Z.eq_dec (fst (fst t)) (snd (fst r)) then true else false)
                                          && (if list_eq_dec Z.eq_dec (snd (fst t)) (snd r) then true else false)) factory_table with
                    | Some t => snd t =? fst (fst r)
                    | None => false end) driver_names = true.
Proof. exact factory_consistent. Qed.
Print Assumptions C20_factory_consistent.

(* the premise of abstracting from time in this property's model: the code it models waits, polls and gives up
   with exactly the kinds of primitives the model accounts for (codes in Proofs/W_*.v); re-extracted from the source on every run *)
Require Import GV.Gen.Consts GV.Proofs.W_authority GV.Proofs.W_net GV.Proofs.W_can.
Theorem C20_time_abstraction : waits_authority = (@nil Z) /\ waits_net = (@nil Z) /\ waits_can = (@nil Z).
Proof. exact (conj w_authority (conj w_net w_can)). Qed.
Check C20_time_abstraction : waits_authority = (@nil Z) /\ waits_net = (@nil Z) /\ waits_can = (@nil Z).
Print Assumptions C20_time_abstraction.
