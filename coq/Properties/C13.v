(* C13 — Wire codec: canonical frames, exact parser, lossless round trip, total decoders. *)
From Coq Require Import ZArith List Bool Reals.
Import ListNotations.
Require Import GV.Gen.Consts GV.Model.Hcu GV.Model.Packets
  GV.Proofs.C13_total GV.Proofs.C13_header GV.Proofs.C13_roundtrip GV.Proofs.C13_size GV.Model.Utf8 GV.Proofs.Utf8_proof GV.Proofs.C13_pole.
Local Open Scope Z_scope.

Theorem C13_header_canonical : forall t n,
  enc_header t n = [76; 88; 82; 3; t; (n / 256) mod 256; n mod 256; 0; 0; 0].
Proof. exact header_canonical. Qed.
Print Assumptions C13_header_canonical.

(* the header parser accepts exactly the headers that meet the specification (all byte lists of
   any length; covers all 2^24 (type,length) headers and every corruption) *)
Theorem C13_parser_exact : forall h t n, wfb h -> 0 <= n < 65536 ->
  (parse_header h = inl (t, n) <-> h = enc_header t n /\ 1 <= n <= 1024).
Proof. exact parser_exact. Qed.
Check C13_parser_exact : forall h t n, wfb h -> 0 <= n < 65536 ->
  (parse_header h = inl (t, n) <-> h = enc_header t n /\ 1 <= n <= 1024).
Print Assumptions C13_parser_exact.

Theorem C13_types_distinct : NoDup all_types.
Proof. exact types_distinct. Qed.
Print Assumptions C13_types_distinct.

Theorem C13_fixed_sizes :
  fixed_size type_error = Some 1 /\ fixed_size type_request = Some 1 /\ fixed_size type_gnss = Some 22
  /\ fixed_size type_engine = Some 5 /\ fixed_size type_target = Some 25 /\ fixed_size type_control = Some 2
  /\ fixed_size type_rotator = Some 14
  /\ fixed_size type_session = None /\ fixed_size type_instance = None /\ fixed_size type_status = None
  /\ fixed_size type_motion = None /\ fixed_size type_actor = None.
Proof. exact fixed_sizes. Qed.
Print Assumptions C13_fixed_sizes.

(* decoding the payload an object encodes to returns an equal object — all twelve types,
   strings and change lists of any representable length, all field values *)
Theorem C13_roundtrip : forall p, pwf p -> run (dec_payload (ptype p)) (enc_payload p) = DOk p.
Proof. exact roundtrip. Qed.
Check C13_roundtrip : forall p, pwf p -> run (dec_payload (ptype p)) (enc_payload p) = DOk p.
Print Assumptions C13_roundtrip.

(* receiving a packet of any type with any declared length and any payload yields a value or an
   error, never a panic *)
Theorem C13_recv_total : forall t payload, wfb payload -> recv_packet t payload <> DPanic.
Proof. exact recv_packet_total. Qed.
Check C13_recv_total : forall t payload, wfb payload -> recv_packet t payload <> DPanic.
Print Assumptions C13_recv_total.

(* at most 1024 payload bytes within the protocol bounds — PARTIAL for Actor: proved for at most
   two segments; the unrestricted statement is refuted by C13_actor_size_refuted (known finding) *)
Theorem C13_size_bound_partial : forall p, in_bounds p ->
  (forall n segs, p = PActor n segs -> (length segs <= 2)%nat) ->
  lenb (enc_payload p) <= 1024.
Proof. exact size_bound. Qed.
Print Assumptions C13_size_bound_partial.

(* the exact size of an Actor payload (any number of segments below 256, any names): the limit of
   1024 bytes holds exactly when 3 + |name| + sum (26 + |segment name|) <= 1024 *)
Theorem C13_actor_size_exact : forall n segs,
  Forall (fun s => length (snd s) = 6%nat) segs -> (length segs < 256)%nat ->
  lenb (enc_payload (PActor n segs)) = 3 + lenb n + fold_right (fun s acc => seg_cost s + acc) 0 segs.
Proof. exact actor_size_exact. Qed.
Print Assumptions C13_actor_size_exact.

Theorem C13_actor_size_refuted : pwf big_actor /\ in_bounds big_actor /\ lenb (enc_payload big_actor) = 1101.
Proof. exact actor_size_refuted. Qed.
Print Assumptions C13_actor_size_refuted.

(* the text the ties compare: on 7-bit strings the UTF-8 view is the byte view (the first k
   characters are the first k bytes; always comparable), and what is taken is a prefix of the input *)
Theorem C13_utf8_ascii : forall k l, ascii7 l = true -> utf8_take k l = Some (firstn k l) /\ utf8_clean l = true.
Proof. exact utf8_ascii_both. Qed.
Print Assumptions C13_utf8_ascii.
Theorem C13_utf8_prefix : forall fuel k l p, utf8_take_f fuel k l = Some p -> exists r, l = p ++ r.
Proof. exact utf8_take_prefix. Qed.
Print Assumptions C13_utf8_prefix.

(* the premise of abstracting from time in this property's model: the code it models waits, polls and gives up
   with exactly the kinds of primitives the model accounts for (codes in Proofs/W_*.v); re-extracted from the source on every run *)
Require Import GV.Gen.Consts GV.Proofs.W_protocol GV.Proofs.W_client.
Theorem C13_time_abstraction : waits_protocol = (@nil Z) /\ waits_client = (@nil Z).
Proof. exact (conj w_protocol w_client). Qed.
Check C13_time_abstraction : waits_protocol = (@nil Z) /\ waits_client = (@nil Z).
Print Assumptions C13_time_abstraction.

(* ---- orientations on the wire: what "an equal object (angles within float tolerance)" means where the angle triple
   is not unique.  With R = Rz(yaw) Ry(pitch) Rx(roll) (the reference the harness judges decoded packets against), at a
   pitch of a quarter turn the orientation depends on roll - yaw only (roll + yaw at minus a quarter turn), so there the
   check compares decoded rotations; strictly inside the quarter turn equal orientations have equal angles (equal sines
   and cosines), so there it compares the angle words.  The repaired Target encoder (cfaadcb, finding F14) sends
   (roll -/+ yaw, +-pi/2, 0) at the pole: the same orientation by the first two theorems ---- *)
Theorem C13_pole_up : forall r y : R, same_orientation (r, PI / 2, y)%R (r - y, PI / 2, 0)%R.
Proof. exact pole_up. Qed.
Print Assumptions C13_pole_up.
Theorem C13_pole_down : forall r y : R, same_orientation (r, - (PI / 2), y)%R (r + y, - (PI / 2), 0)%R.
Proof. exact pole_down. Qed.
Print Assumptions C13_pole_down.
Theorem C13_off_pole_determined : forall r p y r' p' y' : R,
  (- (PI / 2) < p < PI / 2)%R -> (- (PI / 2) < p' < PI / 2)%R ->
  same_orientation (r, p, y) (r', p', y') ->
  sin p = sin p' /\ cos p = cos p' /\ sin r = sin r' /\ cos r = cos r' /\ sin y = sin y' /\ cos y = cos y'.
Proof. exact off_pole_determined. Qed.
Print Assumptions C13_off_pole_determined.
