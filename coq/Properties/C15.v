(* C15 — The command bus never wedges and the newest commands always get through. *)
From Coq Require Import ZArith List Bool Arith.
Import ListNotations.
Require Import GV.Model.Broadcast GV.Proofs.C15_proof.

(* The theorems hold for every value type, every capacity > 0 (the code's capacity 16 is
   regenerated into Gen/Consts.v and used by the executable model) and EVERY schedule: any
   interleaving of sends by any number of producers with the handler's recv / on_command steps. *)

Theorem C15_in_order_subsequence : forall (A : Type) (cap : nat) (dflt : A), 0 < cap -> forall ms,
  subseq A (taken A (s_h A (run A cap dflt (sys0 A) ms))) (s_sent A (run A cap dflt (sys0 A) ms)).
Proof. exact taken_subsequence. Qed.
Print Assumptions C15_in_order_subsequence.

Theorem C15_newest_survive : forall (A : Type) (cap : nat) (dflt : A), 0 < cap -> forall ms,
  let s := run A cap dflt (sys0 A) ms in
  h_cursor A (s_h A s) = length (s_sent A s) -> h_holding A (s_h A s) = None ->
  forall j, length (s_sent A s) - cap <= j < length (s_sent A s) ->
  exists ps, h_done A (s_h A s) = map (fun p => nth p (s_sent A s) dflt) ps /\ In j ps.
Proof. exact newest_survive. Qed.
Check C15_newest_survive : forall (A : Type) (cap : nat) (dflt : A), 0 < cap -> forall ms,
  let s := run A cap dflt (sys0 A) ms in
  h_cursor A (s_h A s) = length (s_sent A s) -> h_holding A (s_h A s) = None ->
  forall j, length (s_sent A s) - cap <= j < length (s_sent A s) ->
  exists ps, h_done A (s_h A s) = map (fun p => nth p (s_sent A s) dflt) ps /\ In j ps.
Print Assumptions C15_newest_survive.

Theorem C15_no_lag_no_loss : forall (A : Type) (cap : nat) (dflt : A), 0 < cap -> forall ms,
  h_lags A (s_h A (run A cap dflt (sys0 A) ms)) = 0 ->
  taken A (s_h A (run A cap dflt (sys0 A) ms))
  = firstn (h_cursor A (s_h A (run A cap dflt (sys0 A) ms))) (s_sent A (run A cap dflt (sys0 A) ms)).
Proof. exact lags_zero_all_taken. Qed.
Print Assumptions C15_no_lag_no_loss.

Theorem C15_lag_does_not_stop : forall (A : Type) (cap : nat) (dflt : A), 0 < cap -> forall s,
  h_holding A (s_h A s) = None -> h_cursor A (s_h A s) < length (s_sent A s) - cap ->
  let s' := step A cap dflt s MRecv in
  h_holding A (s_h A s') = None /\ h_cursor A (s_h A s') = length (s_sent A s) - cap
  /\ exists x, h_holding A (s_h A (step A cap dflt s' MRecv)) = Some x.
Proof. exact lag_does_not_stop. Qed.
Print Assumptions C15_lag_does_not_stop.

Theorem C15_send_always_enabled : forall (A : Type) (cap : nat) (dflt : A) s x,
  s_sent A (step A cap dflt s (MSend x)) = s_sent A s ++ [x] /\ s_h A (step A cap dflt s (MSend x)) = s_h A s.
Proof. exact send_always_enabled. Qed.
Print Assumptions C15_send_always_enabled.

(* the premise of abstracting from time in this property's model: the code it models waits, polls and gives up
   with exactly the kinds of primitives the model accounts for (codes in Proofs/W_*.v); re-extracted from the source on every run *)
Require Import GV.Gen.Consts GV.Proofs.W_runtime GV.Proofs.W_authority GV.Proofs.W_net GV.Proofs.W_can.
Theorem C15_time_abstraction : waits_runtime = (@cons Z 2%Z (@cons Z 10%Z (@nil Z))) /\ waits_authority = (@nil Z) /\ waits_net = (@nil Z) /\ waits_can = (@nil Z).
Proof. exact (conj w_runtime (conj w_authority (conj w_net w_can))). Qed.
Check C15_time_abstraction : waits_runtime = (@cons Z 2%Z (@cons Z 10%Z (@nil Z))) /\ waits_authority = (@nil Z) /\ waits_net = (@nil Z) /\ waits_can = (@nil Z).
Print Assumptions C15_time_abstraction.
