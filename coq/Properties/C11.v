(* C11 — Bus frames are attributed only to the unit that sent them. *)
From Coq Require Import ZArith List Bool.
Import ListNotations.
Require Import GV.Gen.Consts GV.Model.Outcome GV.Model.J1939 GV.Model.Governor GV.Model.Hcu GV.Model.Object
  GV.Model.HcuUnit GV.Model.Units GV.Model.CanNet GV.Spec.Units_spec GV.Proofs.Units_proof.
Local Open Scope Z_scope.

Theorem C11 : forall c, ucase_wf c = true -> c11_spec_ok c (unit_model c) = true.
Proof. exact c11_holds. Qed.
Check C11 : forall c, ucase_wf c = true -> c11_spec_ok c (unit_model c) = true.
Print Assumptions C11.

(* for every driver kind, configuration, context and frame: a frame whose source is not the unit
   leaves the unit's whole context unchanged and produces no signal *)
Theorem C11_foreign_inert : forall k u c f, id_sa (f_id f) <> u_da u -> unit_recv k u c f = ignore c.
Proof. exact c11_foreign_ignore. Qed.
Print Assumptions C11_foreign_inert.

Theorem C11_source : forall k u c f, changed c (unit_recv k u c f) -> id_sa (f_id f) = u_da u.
Proof. exact c11_source. Qed.
Print Assumptions C11_source.

Theorem C11_addressed_elsewhere : forall k u c f d,
  id_da (f_id f) = Some d -> d <> 255 -> d <> u_da u -> unit_recv k u c f = ignore c.
Proof. exact c11_addressed_elsewhere. Qed.
Print Assumptions C11_addressed_elsewhere.

Theorem C11_names_source : forall k u c f o, In o (r_sigs (unit_recv k u c f)) ->
  match o with ORotator (src :: _) => src = u_da u | ORotator [] => False | _ => True end.
Proof. exact c11_names_source. Qed.
Print Assumptions C11_names_source.

(* multi-driver configurations of any size: every driver whose address differs from the frame's
   source keeps its context — with pairwise distinct addresses at most one unit is credited *)
Theorem C11_at_most_one : forall ds f,
  Forall2 (fun d d' => id_sa (f_id f) <> u_da (d_cfg d) -> d_ctx d' = d_ctx d) ds (fst (scan ds f)).
Proof. exact c11_scan_foreign. Qed.
Print Assumptions C11_at_most_one.

Theorem C11_request_inert : forall ds f, id_pgn (f_id f) = PGN_REQUEST -> authority_recv ds f = (ds, []).
Proof. exact c11_request_inert. Qed.
Print Assumptions C11_request_inert.

(* the premise of abstracting from time in this property's model: the code it models waits, polls and gives up
   with exactly the kinds of primitives the model accounts for (codes in Proofs/W_*.v); re-extracted from the source on every run *)
Require Import GV.Gen.Consts GV.Proofs.W_authority GV.Proofs.W_can GV.Proofs.W_net.
Theorem C11_time_abstraction : waits_authority = (@nil Z) /\ waits_can = (@nil Z) /\ waits_net = (@nil Z).
Proof. exact (conj w_authority (conj w_can w_net)). Qed.
Check C11_time_abstraction : waits_authority = (@nil Z) /\ waits_can = (@nil Z) /\ waits_net = (@nil Z).
Print Assumptions C11_time_abstraction.
