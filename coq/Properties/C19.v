(* C19 — Kinematics and control maths meet their contracts.
   Float statements are about the binary32 arithmetic the code executes (Flocq's
   BinarySingleNaN, bit-exact with the implementation by the correspondence check):
   R32 x is the real value of the float x, PI_f = R32 fpi = 13176795 * 2^-22. *)
From Coq Require Import ZArith Reals List Bool.
From Flocq Require Import Core BinarySingleNaN.
Import ListNotations.
Require Import GV.Gen.Consts GV.Model.Outcome GV.Model.F32 GV.Model.Kinematics GV.Model.Packets GV.Spec.C19_spec
  GV.Proofs.F32_lemmas GV.Proofs.C19_rotation GV.Proofs.C19_triangle GV.Proofs.C19_profile
  GV.Proofs.C19_actuator GV.Proofs.C19_deadband GV.Proofs.C19_chain GV.Proofs.C13_roundtrip GV.Proofs.C19_cosines_f32 GV.Proofs.C19_cosines_exact GV.Proofs.C19_saturation.

(* ---- shortest_rotation: for EVERY finite f32 d >= -2*PI_f ---- *)
Theorem C19_shortest_rotation : forall d : f32,
  is_finite d = true -> (- R32 ftwopi <= R32 d)%R ->
  let r := shortest_rotation d in
  is_finite r = true /\ (- R32 fpi < R32 r <= R32 fpi)%R
  /\ exists k : Z, R32 r = (rnd (R32 d + R32 ftwopi) - IZR k * R32 ftwopi)%R.
Proof. exact shortest_rotation_f32. Qed.
Check C19_shortest_rotation : forall d : f32,
  is_finite d = true -> (- R32 ftwopi <= R32 d)%R ->
  let r := shortest_rotation d in
  is_finite r = true /\ (- R32 fpi < R32 r <= R32 fpi)%R
  /\ exists k : Z, R32 r = (rnd (R32 d + R32 ftwopi) - IZR k * R32 ftwopi)%R.
Print Assumptions C19_shortest_rotation.

(* ---- law_of_cosines ---- *)
(* over the reals the acos argument is in [-1, 1] exactly when the triangle exists ... *)
Theorem C19_law_of_cosines_domain : forall a b c : R, (0 < a)%R -> (0 < b)%R -> (0 <= c)%R ->
  ((-1 <= loc_arg_R a b c <= 1)%R <-> (Rabs (a - b) <= c <= a + b)%R).
Proof. exact loc_domain. Qed.
Print Assumptions C19_law_of_cosines_domain.
(* ... and acos of it is the angle opposite c *)
Theorem C19_law_of_cosines_angle : forall a b c gamma : R, (0 < a)%R -> (0 < b)%R -> (0 <= gamma <= PI)%R ->
  (c * c = a * a + b * b - 2 * a * b * cos gamma)%R -> loc_R a b c = gamma.
Proof. exact loc_angle. Qed.
Print Assumptions C19_law_of_cosines_angle.
(* in binary32 the strict reading "NaN only when no such triangle exists" is FALSE: a strictly
   non-degenerate triangle whose acos argument rounds outside [-1, 1] (known finding K03) *)
Theorem C19_law_of_cosines_f32_refuted :
  exists a b c t,
    tri_moderate a b c = true /\ tri_ints a b c = Some t
    /\ (Z.abs (tri_N t) < tri_D t)%Z /\ loc_is_nan a b c = true.
Proof. exact loc_strict_refuted. Qed.
Print Assumptions C19_law_of_cosines_f32_refuted.

(* ... but with an explicit margin it is TRUE in binary32, in both directions: for EVERY triple of
   positive floats of moderate magnitude (2^-41 <= x < 2^41), with N = a^2+b^2-c^2, D = 2ab,
   S = a^2+b^2+c^2 computed exactly:  D + S <= 2^21 (D - |N|)  (the triangle exists and
   1 - |cos| >= 2^-21 (1 + S/D))  implies the argument of acos is a finite float in [-1, 1];
   D + S <= 2^21 (|N| - D)  (no triangle, same margin) implies it is outside [-1, 1] (or not finite).
   This is the NaN half of the reading the check enforces on the implementation (loc_spec);
   K03 is exactly the gap between the two margins. *)
Theorem C19_law_of_cosines_f32_margin : forall (a b c : f32) t,
  tri_moderate a b c = true -> tri_ints a b c = Some t ->
  (tri_safe t = true -> loc_is_nan a b c = false) /\ (tri_safely_none t = true -> loc_is_nan a b c = true).
Proof. exact loc_margin_spec_nan. Qed.
Check C19_law_of_cosines_f32_margin : forall (a b c : f32) t,
  tri_moderate a b c = true -> tri_ints a b c = Some t ->
  (tri_safe t = true -> loc_is_nan a b c = false) /\ (tri_safely_none t = true -> loc_is_nan a b c = true).
Print Assumptions C19_law_of_cosines_f32_margin.

(* ... and WITHOUT any margin when the arithmetic is exact: sides that are integers below 2048 over a common power of
   two (3, 4, 7; 6.0, 2.75, 8.75; ...) make every intermediate representable, the quotient is the correctly rounded
   exact cosine, and every existing triangle - the degenerate ones a + b = c and |a - b| = c included - is answered *)
Theorem C19_law_of_cosines_exact : forall (a b c : f32) t,
  tri_moderate a b c = true -> tri_ints a b c = Some t -> tri_small t = true -> tri_exists t = true ->
  loc_is_nan a b c = false.
Proof. exact loc_exact_no_nan. Qed.
Check C19_law_of_cosines_exact : forall (a b c : f32) t,
  tri_moderate a b c = true -> tri_ints a b c = Some t -> tri_small t = true -> tri_exists t = true ->
  loc_is_nan a b c = false.
Print Assumptions C19_law_of_cosines_exact.

(* ---- Linear::update, for EVERY profile with finite gain >= 0 and 0 <= offset <= 32767 and EVERY
   finite error: no panic, a finite value, equal to +-lu_real; lu_real is monotone in the error
   (w.r.t. the order with -0.0 < +0.0), has the sign of the error and stays within [-32768, 32768] ---- *)
Theorem C19_linear_update : forall p, lin_ok p -> forall e : f32, is_finite e = true ->
  exists v, linear_update p e = Ok v /\ is_finite v = true
            /\ R32 v = ((if l_inverse p then 1 else -1) * lu_real p e)%R.
Proof. exact linear_update_value. Qed.
Print Assumptions C19_linear_update.
Theorem C19_linear_update_monotone : forall p, lin_ok p -> forall e1 e2 : f32,
  is_finite e1 = true -> is_finite e2 = true -> ord_le e1 e2 -> (lu_real p e1 <= lu_real p e2)%R.
Proof. exact lu_real_mono. Qed.
Print Assumptions C19_linear_update_monotone.
Theorem C19_linear_update_sign_and_range : forall p, lin_ok p -> forall e : f32, is_finite e = true ->
  (Bsign e = false -> (0 <= lu_real p e <= 32768)%R) /\ (Bsign e = true -> (-32768 <= lu_real p e <= 0)%R).
Proof. exact lu_sign_range. Qed.
Print Assumptions C19_linear_update_sign_and_range.
(* ... and saturates AT the limits: once the proportional part reaches the room the offset leaves, the value before the sign
   flip is -32768 (negative errors) / 32767 (positive errors) up to the rounding of the two additions *)
Theorem C19_linear_update_saturates_low : forall p, lin_ok p -> forall e : f32, is_finite e = true -> Bsign e = true ->
  (satR (rnd (R32 e * R32 (kp p))) <= LO p)%R ->
  (-32768 <= lu_real p e <= -32768 + bpow2 (-9))%R.
Proof. exact lu_saturates_low. Qed.
Print Assumptions C19_linear_update_saturates_low.
Theorem C19_linear_update_saturates_high : forall p, lin_ok p -> forall e : f32, is_finite e = true -> Bsign e = false ->
  (0 < R32 e)%R -> (HI p <= satR (rnd (R32 e * R32 (kp p))))%R ->
  (32767 - bpow2 (-9) <= lu_real p e <= 32767 + bpow2 (-9))%R.
Proof. exact lu_saturates_high. Qed.
Print Assumptions C19_linear_update_saturates_high.

(* ---- ActuatorState::update: the i16 the director sends saturates (never wraps), opposes the sign
   of the error unless inverted, is monotone; along ANY sequence of updates with finite errors:
   one event per error, ONE neutral event when the errors stop, then silence ---- *)
Theorem C19_actuator_value : forall p, lin_ok p -> forall act stop (e : f32), is_finite e = true ->
  actuator_update {| a_profile := p; a_actuator := act; a_stop := stop |} (Some e)
  = Ok ({| a_profile := p; a_actuator := act; a_stop := false |}, Some (act, e, act_value p e))
  /\ (-32768 <= act_value p e <= 32767)%Z
  /\ ((0 < R32 e)%R -> if l_inverse p then (0 <= act_value p e)%Z else (act_value p e <= 0)%Z)
  /\ ((R32 e < 0)%R -> if l_inverse p then (act_value p e <= 0)%Z else (0 <= act_value p e)%Z).
Proof. exact actuator_value_all. Qed.
Print Assumptions C19_actuator_value.
Theorem C19_actuator_monotone : forall p, lin_ok p -> forall e1 e2 : f32,
  is_finite e1 = true -> is_finite e2 = true -> ord_le e1 e2 ->
  if l_inverse p then (act_value p e1 <= act_value p e2)%Z else (act_value p e2 <= act_value p e1)%Z.
Proof. exact act_value_mono. Qed.
Print Assumptions C19_actuator_monotone.
Theorem C19_actuator_sequences : forall p, lin_ok p -> forall steps act stop,
  Forall (fun o => match o with Some e => is_finite e = true | None => True end) steps ->
  exists evs,
    act_run {| a_profile := p; a_actuator := act; a_stop := stop |} steps = Ok evs
    /\ act_spec act (l_inverse p) (negb stop) steps evs = true.
Proof. exact act_run_spec. Qed.
Print Assumptions C19_actuator_sequences.
(* the profiles director.rs binds (regenerated from the source) are in that domain *)
Theorem C19_director_profiles_in_domain :
  Forall (fun q => lin_ok {| kp := f_of_Z (fst (fst q)); l_offset := f_of_Z (snd (fst q)); l_inverse := snd q |})
         director_profiles.
Proof. exact director_profiles_ok. Qed.
Print Assumptions C19_director_profiles_in_domain.

(* ---- linear_motion (deadbanded): for the same domain and EVERY finite delta and ANY lower bound:
   no panic; no value exactly when |delta| < lower_bound; otherwise lm_value, within +-32767,
   opposing the sign of delta unless inverted, monotone ---- *)
Theorem C19_linear_motion : forall p, lin_ok p -> forall lb d : f32, is_finite d = true ->
  linear_motion d (Bsign d) lb (l_offset p) (kp p) (l_inverse p)
  = Ok (if flt (fabs d) lb then None else Some (lm_value p d)).
Proof. exact linear_motion_value. Qed.
Print Assumptions C19_linear_motion.
Theorem C19_linear_motion_range_sign : forall p, lin_ok p -> forall d : f32, is_finite d = true ->
  (-32767 <= lm_value p d <= 32767)%Z
  /\ ((0 < R32 d)%R -> if l_inverse p then (0 <= lm_value p d)%Z else (lm_value p d <= 0)%Z)
  /\ ((R32 d < 0)%R -> if l_inverse p then (lm_value p d <= 0)%Z else (0 <= lm_value p d)%Z).
Proof. exact lm_range_sign. Qed.
Print Assumptions C19_linear_motion_range_sign.
Theorem C19_linear_motion_monotone : forall p, lin_ok p -> forall d1 d2 : f32,
  is_finite d1 = true -> is_finite d2 = true -> ord_le d1 d2 ->
  if l_inverse p then (lm_value p d1 <= lm_value p d2)%Z else (lm_value p d2 <= lm_value p d1)%Z.
Proof. exact lm_value_mono. Qed.
Print Assumptions C19_linear_motion_monotone.

(* ---- Actor::world_location: for ANY type of transforms and ANY multiplication, the loop yields
   the ordered product of the transforms up to and including the first segment with the name
   (all of them if there is none); later segments are irrelevant ---- *)
Theorem C19_world_location_named : forall (T : Type) (one : T) (mul : T -> T -> T) pre name t post,
  (forall s, In s pre -> fst s <> name) ->
  world_transform one mul (pre ++ (name, t) :: post) name = fold_left mul (map (@snd Z T) pre ++ [t]) one.
Proof. exact @world_transform_named. Qed.
Print Assumptions C19_world_location_named.
Theorem C19_world_location_unnamed : forall (T : Type) (one : T) (mul : T -> T -> T) segs name,
  (forall s, In s segs -> fst s <> name) ->
  world_transform one mul segs name = fold_left mul (map (@snd Z T) segs) one.
Proof. exact @world_transform_unnamed. Qed.
Print Assumptions C19_world_location_unnamed.
(* for exact affine maps: the location is t1 + M1 t2 + M1 M2 t3 + ... *)
Theorem C19_world_location_exact : forall segs name,
  world_location_Z segs name = origin_sum (upto segs name).
Proof. exact world_location_exact. Qed.
Print Assumptions C19_world_location_exact.

(* ---- Actor serialisation round-trips at the level of names and words (all lengths); the Euler
   angle conversion inside is float code exercised by the correspondence ---- *)
Theorem C19_actor_roundtrip : forall n segs, pwf (PActor n segs) ->
  Packets.run dec_actor (enc_payload (PActor n segs)) = DOk (PActor n segs).
Proof. exact actor_roundtrip. Qed.
Print Assumptions C19_actor_roundtrip.

(* ---- the hypotheses are satisfiable ---- *)
Example C19_rotation_premises : is_finite (f_of_Z 7) = true /\ (- R32 ftwopi <= R32 (f_of_Z 7))%R.
Proof. exact rotation_premises. Qed.
