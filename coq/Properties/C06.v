(* C06 — No CAN frame can crash the daemon; short frames are normalised. *)
From Coq Require Import ZArith List Bool.
Import ListNotations.
Require Import GV.Gen.Consts GV.Model.Outcome GV.Model.J1939 GV.Model.Governor GV.Model.Hcu GV.Model.Object
  GV.Model.HcuUnit GV.Model.Units GV.Model.CanNet GV.Spec.Units_spec GV.Proofs.C17_proof GV.Proofs.Units_proof.
Local Open Scope Z_scope.

(* whatever 16 raw bytes arrive from the socket (any 32-bit can_id, DLC 0..8, any data), the frame
   handed to EVERY driver kind under EVERY address configuration has exactly 8 data bytes, so no
   slice / try_into().unwrap() on the payload can panic *)
Theorem C06 : forall k u raw f, of_can_frame raw = Some f ->
  unit_model {| uc_kind := k; uc_u := u; uc_frame := normalise f |} <> Panic.
Proof. exact c06_total. Qed.
Check C06 : forall k u raw f, of_can_frame raw = Some f ->
  unit_model {| uc_kind := k; uc_u := u; uc_frame := normalise f |} <> Panic.
Print Assumptions C06.

Theorem C06_normalised : forall f, (length (f_data f) <= 8)%nat ->
  length (f_data (normalise f)) = 8%nat
  /\ firstn (length (f_data f)) (f_data (normalise f)) = f_data f
  /\ skipn (length (f_data f)) (f_data (normalise f)) = repeat 255 (8 - length (f_data f)).
Proof. exact c06_normalised. Qed.
Print Assumptions C06_normalised.

Theorem C06_spec : forall c, ucase_wf c = true -> c06_spec_ok c (unit_model c) = true.
Proof. exact c06_holds. Qed.
Print Assumptions C06_spec.

(* the premise of abstracting from time in this property's model: the code it models waits, polls and gives up
   with exactly the kinds of primitives the model accounts for (codes in Proofs/W_*.v); re-extracted from the source on every run *)
Require Import GV.Gen.Consts GV.Proofs.W_can GV.Proofs.W_net GV.Proofs.W_authority.
Theorem C06_time_abstraction : waits_can = (@nil Z) /\ waits_net = (@nil Z) /\ waits_authority = (@nil Z).
Proof. exact (conj w_can (conj w_net w_authority)). Qed.
Check C06_time_abstraction : waits_can = (@nil Z) /\ waits_net = (@nil Z) /\ waits_authority = (@nil Z).
Print Assumptions C06_time_abstraction.
