(* C16 — Orderly shutdown: teardown frames sent, daemon exits in bounded time (partial, see DESIGN 7). *)
From Coq Require Import ZArith List Bool Arith.
Import ListNotations.
Require Import GV.Gen.Consts GV.Model.J1939 GV.Model.Governor GV.Model.Hcu GV.Model.Object GV.Model.HcuUnit GV.Model.Units GV.Model.Volvo GV.Model.Authority GV.Model.Shutdown
  GV.Spec.C02_spec GV.Proofs.C16_proof.
Local Open Scope Z_scope.

(* for EVERY configuration: teardown of a network = one motion reset per hydraulic unit, in order *)
Theorem C16_teardown_frames : forall a,
  auth_teardown a = map (fun it => reset_frame (u_da (i_cfg it)) (u_sa (i_cfg it)))
                        (filter (fun it => match i_kind it with KHcu => true | _ => false end) (a_items a)).
Proof. exact teardown_frames. Qed.
Check C16_teardown_frames : forall a,
  auth_teardown a = map (fun it => reset_frame (u_da (i_cfg it)) (u_sa (i_cfg it)))
                        (filter (fun it => match i_kind it with KHcu => true | _ => false end) (a_items a)).
Print Assumptions C16_teardown_frames.

Theorem C16_reset_frame_bytes : forall da sa, 0 <= da < 256 -> 0 <= sa < 256 ->
  reset_frame da sa = {| f_id := exact_id 3 45824 da sa; f_data := [90; 67; 255; 255; 1] |}.
Proof. exact reset_frame_bytes. Qed.
Print Assumptions C16_reset_frame_bytes.

(* at whatever point of whatever schedule the signal is inserted: the receive task's teardown step
   emits exactly its network's teardown frames *)
Theorem C16_recv_task_teardown : forall w i n,
  nth_error (w_tasks w) i = Some {| t_kind := TRecv n; t_pc := PTeardown |} ->
  snd (wstep w (STeardown i)) = match nth_error (w_nets w) n with Some a => auth_teardown a | None => [] end.
Proof. exact recv_task_teardown. Qed.
Print Assumptions C16_recv_task_teardown.

(* once all tasks are done no transition emits a frame *)
Theorem C16_quiescent : forall w s, all_done w = true -> wstep w s = (fst (wstep w s), []) /\
  (forall s', s = s' -> match s with SSignal => True | _ => fst (wstep w s) = w end).
Proof. exact quiescent. Qed.
Print Assumptions C16_quiescent.

(* variant: after the signal every effective step strictly decreases the remaining work, which
   starts at 3 per task; so under weak fairness every task is done after at most 3 of its own steps *)
Theorem C16_bounded_steps : forall w s, w_shutdown w = true ->
  (total (fst (wstep w s)) <= total w)%nat /\ (fst (wstep w s) <> w -> (total (fst (wstep w s)) < total w)%nat).
Proof. exact progress_decreases. Qed.
Print Assumptions C16_bounded_steps.

Theorem C16_initial_bound : forall n, total {| w_tasks := tasks_for n; w_nets := []; w_shutdown := true |} = (3 * (3 * n + 3))%nat.
Proof. exact initial_bound. Qed.
Print Assumptions C16_initial_bound.

(* the premise of abstracting from time in this property's model: the code it models waits, polls and gives up
   with exactly the kinds of primitives the model accounts for (codes in Proofs/W_*.v); re-extracted from the source on every run *)
Require Import GV.Gen.Consts GV.Proofs.W_runtime GV.Proofs.W_server_main GV.Proofs.W_authority GV.Proofs.W_net GV.Proofs.W_can.
Theorem C16_time_abstraction : waits_runtime = (@cons Z 2%Z (@cons Z 10%Z (@nil Z))) /\ waits_server_main = (@nil Z) /\ waits_authority = (@nil Z) /\ waits_net = (@nil Z) /\ waits_can = (@nil Z).
Proof. exact (conj w_runtime (conj w_server_main (conj w_authority (conj w_net w_can)))). Qed.
Check C16_time_abstraction : waits_runtime = (@cons Z 2%Z (@cons Z 10%Z (@nil Z))) /\ waits_server_main = (@nil Z) /\ waits_authority = (@nil Z) /\ waits_net = (@nil Z) /\ waits_can = (@nil Z).
Print Assumptions C16_time_abstraction.
