(* C09 — Director: emergency stop on overspeed or excessive tilt, silent otherwise. *)
From Coq Require Import ZArith List Bool.
Import ListNotations.
Require Import GV.Gen.Consts GV.Model.Director GV.Spec.C09_spec GV.Proofs.C09_proof.
Local Open Scope Z_scope.

(* for EVERY signal history (all rpm values, rotation readings from every source with any angles,
   every other signal kind): after each processed signal the director issues the full emergency
   sequence, in order, iff a condition is pending, and nothing at all otherwise *)
Theorem C09 : forall h, c09_spec_ok h (c09_model h) = true.
Proof. exact c09_holds. Qed.
Check C09 : forall h, c09_spec_ok h (c09_model h) = true.
Print Assumptions C09.

Theorem C09_tilt_emergency : forall r,
  elect_rotator r = VEmergency <-> (rr_src r = 122 /\ (4500 < rr_roll r \/ 4500 < rr_pitch r) /\ rr_yaw0 r = true).
Proof. exact rotator_emergency. Qed.
Print Assumptions C09_tilt_emergency.

Theorem C09_overspeed_emergency : forall rpm, elect_engine rpm = VEmergency <-> 2200 < rpm.
Proof. exact engine_emergency. Qed.
Print Assumptions C09_overspeed_emergency.

Theorem C09_sequence : emergency_sequence =
  [DControl 6 true; DStopAll; DControl 7 false; DControl 32 true; DControl 31 true; DEngineShutdown].
Proof. reflexivity. Qed.
Print Assumptions C09_sequence.

(* the premise of abstracting from time in this property's model: the code it models waits, polls and gives up
   with exactly the kinds of primitives the model accounts for (codes in Proofs/W_*.v); re-extracted from the source on every run *)
Require Import GV.Gen.Consts GV.Proofs.W_director.
Theorem C09_time_abstraction : waits_director = (@nil Z).
Proof. exact w_director. Qed.
Check C09_time_abstraction : waits_director = (@nil Z).
Print Assumptions C09_time_abstraction.

(* signals that queue up in bursts of any size g are processed one by one: regrouping the outputs per burst
   (what an observer sees who lets the director run only after each burst) loses and reorders nothing *)
Require Import GV.Model.C09_io GV.Proofs.C09_burst.
Theorem C09_bursts : forall g h,
  (0 < g)%nat -> concat (regroup (length h) g (c09_model h)) = concat (c09_model h).
Proof. exact burst_preserves_commands. Qed.
Check C09_bursts : forall g h,
  (0 < g)%nat -> concat (regroup (length h) g (c09_model h)) = concat (c09_model h).
Print Assumptions C09_bursts.

(* the director as the runtime schedules it (wait_io_sub re-entered with a fresh subscription after a lag): what it
   issues is what it would issue for the processed signals alone - lagging loses whole groups of signals, the verdicts
   elected from the processed ones survive every re-entry *)
Theorem C09_lag_keeps_verdicts : forall fuel s small g h,
  concat (drun_groups fuel s small g h) = concat (GV.Model.Director.drun s (kept fuel small g h)).
Proof. exact lag_loses_groups_not_verdicts. Qed.
Check C09_lag_keeps_verdicts : forall fuel s small g h,
  concat (drun_groups fuel s small g h) = concat (GV.Model.Director.drun s (kept fuel small g h)).
Print Assumptions C09_lag_keeps_verdicts.
