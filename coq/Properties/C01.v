(* C01 — Hydraulics stay locked unless the latest motion command says otherwise. *)
From Coq Require Import ZArith List.
Import ListNotations.
Require Import GV.Model.J1939 GV.Model.Governor GV.Model.Hcu GV.Model.Object GV.Model.HcuUnit
  GV.Spec.C02_spec GV.Spec.C01_spec GV.Proofs.C01_proof
  GV.Model.Units GV.Model.Authority GV.Model.Auth_io GV.Model.C01a_io GV.Proofs.C01_auth
  GV.Gen.Consts GV.Model.Sched GV.Proofs.Sched_proof GV.Model.C01r_io GV.Proofs.C01_runtime GV.Model.Broadcast GV.Proofs.C01_channel.
Local Open Scope Z_scope.

Theorem C01 : forall c, c01_wf c = true -> c01_spec_ok c (c01_model c) = true.
Proof. exact c01_holds. Qed.
Check C01 : forall c, c01_wf c = true -> c01_spec_ok c (c01_model c) = true.
Print Assumptions C01.

(* after ANY history, a tick re-sends exactly the encoding of the latest motion command
   (stop-all when there has been none) *)
Theorem C01_reassert : forall u evs,
  hcu_tick u (ctx_after u evs) = encode_motion (u_da u) (u_sa u) (last_motion StopAll evs).
Proof. exact c01_reassert. Qed.
Print Assumptions C01_reassert.

(* engine/control/target/rotator/status commands and every received frame leave the
   re-asserted command unchanged *)
Theorem C01_inert : forall u c,
  (forall o, (forall m, o <> OMotion m) -> tx_last (fst (hcu_trigger u c o)) = tx_last c)
  /\ (forall f, tx_last (r_ctx (hcu_recv u c f)) = tx_last c).
Proof. exact c01_inert. Qed.
Print Assumptions C01_inert.

(* ---- the same through the NetworkAuthority model, for ANY driver configuration and ANY history of
   authority events — cycles, accepted commands whether or not their frames left the socket
   (A01Fail: every write failed), received frames, waits, setup, teardown: each hydraulic-unit
   driver's register holds the most recent ACCEPTED motion command ... ---- *)
Theorem C01_authority_register : forall evs a now cur,
  hcu_inv (a_items a) cur -> hcu_inv (a_items (fst (a01after a now evs))) (last_accepted cur evs).
Proof. exact authority_register. Qed.
Print Assumptions C01_authority_register.
(* ... so that the next cycle re-sends exactly its encoding (the lock frame alone for stop-all) *)
Theorem C01_authority_reasserts : forall addr nm cs evs,
  let a := fst (a01after (auth_new 0 addr nm cs) 0 evs) in
  forall it now, In it (a_items a) -> i_kind it = KHcu ->
    item_tick_frames it now = encode_motion (u_da (i_cfg it)) (u_sa (i_cfg it)) (last_accepted StopAll evs).
Proof. exact authority_reasserts. Qed.
Check C01_authority_reasserts : forall addr nm cs evs,
  let a := fst (a01after (auth_new 0 addr nm cs) 0 evs) in
  forall it now, In it (a_items a) -> i_kind it = KHcu ->
    item_tick_frames it now = encode_motion (u_da (i_cfg it)) (u_sa (i_cfg it)) (last_accepted StopAll evs).
Print Assumptions C01_authority_reasserts.

(* ---- every interleaving: the three tasks as programs of atomic context accesses (Model/Sched.v).
   For EVERY list of micro-events — cycle reads the register / cycle puts its frames on the bus /
   command task stores a command / command task puts its frames on the bus / receive task handles
   a frame, in any order, with disabled steps as no-ops — what reaches the bus is what the
   register-free specification says: each cycle sends the encoding of the latest motion command
   accepted BEFORE ITS READ (stop-all when none), each command sends its own encoding ---- *)
Theorem C01_all_schedules : forall u evs, hrun u hstate0 evs = grun u hghost0 evs.
Proof. exact hsched. Qed.
Check C01_all_schedules : forall u evs, hrun u hstate0 evs = grun u hghost0 evs.
Print Assumptions C01_all_schedules.
(* handler-granular histories (what C01 above and the correspondence run) are the schedules whose
   steps are adjacent: same frames in the same order *)
Theorem C01_sequential_is_a_schedule : forall u evs c,
  concat (hrun u {| h_ctx := c; h_tick := None; h_cmd := None |} (flat_map hseq evs)) = concat (c01_run u c evs).
Proof. exact hsched_sequential. Qed.
Print Assumptions C01_sequential_is_a_schedule.
(* the programs consist of the accesses the source makes (re-extracted on every run) *)
Theorem C01_access_shapes :
  shape_hcu_tick = [ACC_TX_LAST] /\ shape_hcu_trigger = [ACC_SET_TX] /\ rx_side_only shape_hcu_try_recv = true
  /\ shape_volvo_tick = [ACC_RX_LAST; ACC_TX_LAST] /\ shape_volvo_trigger = [ACC_RX_LAST; ACC_SET_TX]
  /\ shape_volvo_try_recv = [] /\ rx_side_only shape_ems_try_recv = true
  /\ shape_authority_recv = [ACC_RX_MARK] /\ shape_authority_on_tick = [6; 7] /\ shape_authority_on_command = [].
Proof. exact shapes_match. Qed.
Print Assumptions C01_access_shapes.

(* the premise of abstracting from time in this property's model: the code it models waits, polls and gives up
   with exactly the kinds of primitives the model accounts for (codes in Proofs/W_*.v); re-extracted from the source on every run *)
Require Import GV.Gen.Consts GV.Proofs.W_authority GV.Proofs.W_j1939 GV.Proofs.W_hydraulic GV.Proofs.W_net GV.Proofs.W_can.
Theorem C01_time_abstraction : waits_authority = (@nil Z) /\ waits_j1939 = (@cons Z 7%Z (@cons Z 8%Z (@nil Z))) /\ waits_hydraulic = (@nil Z) /\ waits_net = (@nil Z) /\ waits_can = (@nil Z).
Proof. exact (conj w_authority (conj w_j1939 (conj w_hydraulic (conj w_net w_can)))). Qed.
Check C01_time_abstraction : waits_authority = (@nil Z) /\ waits_j1939 = (@cons Z 7%Z (@cons Z 8%Z (@nil Z))) /\ waits_hydraulic = (@nil Z) /\ waits_net = (@nil Z) /\ waits_can = (@nil Z).
Print Assumptions C01_time_abstraction.

(* ---- the same through the runtime model (Model/C01r_io.v): commands are PUBLISHED on the bounded command
   channel and reach the drivers only when the command task takes them; a burst the task has not taken
   keeps its newest QUEUE_SIZE_COMMAND objects, the task goes on.  For ANY driver configuration and ANY
   history of published objects, runs-until-blocked and cycles, each hydraulic-unit driver's register holds
   the most recent DELIVERED motion command and the next cycle re-sends exactly its encoding ---- *)
Theorem C01_runtime_reasserts : forall addr nm cs evs,
  let a := fst (rafter (rstart addr nm cs) [] evs) in
  forall it now, In it (a_items a) -> i_kind it = KHcu ->
    item_tick_frames it now = encode_motion (u_da (i_cfg it)) (u_sa (i_cfg it)) (r_accepted StopAll [] evs).
Proof. exact runtime_reasserts. Qed.
Check C01_runtime_reasserts : forall addr nm cs evs,
  let a := fst (rafter (rstart addr nm cs) [] evs) in
  forall it now, In it (a_items a) -> i_kind it = KHcu ->
    item_tick_frames it now = encode_motion (u_da (i_cfg it)) (u_sa (i_cfg it)) (r_accepted StopAll [] evs).
Print Assumptions C01_runtime_reasserts.
(* ... and a stop-all followed by fewer than the capacity non-motion objects is what every later cycle
   asserts, whatever was published before it and however much of that an overrun skipped *)
Theorem C01_final_stop_all_is_reasserted : forall addr nm cs evs before after,
  forallb (fun o => negb (is_motion o)) after = true -> (length after < qcap)%nat ->
  snd (rafter (rstart addr nm cs) [] evs) = before ->
  let a := fst (rafter (rstart addr nm cs) [] (evs ++ map RSend (OMotion StopAll :: after) ++ [RSettle])) in
  forall it now, In it (a_items a) -> i_kind it = KHcu ->
    item_tick_frames it now = encode_motion (u_da (i_cfg it)) (u_sa (i_cfg it)) StopAll.
Proof. exact final_stop_all_is_reasserted. Qed.
Check C01_final_stop_all_is_reasserted : forall addr nm cs evs before after,
  forallb (fun o => negb (is_motion o)) after = true -> (length after < qcap)%nat ->
  snd (rafter (rstart addr nm cs) [] evs) = before ->
  let a := fst (rafter (rstart addr nm cs) [] (evs ++ map RSend (OMotion StopAll :: after) ++ [RSettle])) in
  forall it now, In it (a_items a) -> i_kind it = KHcu ->
    item_tick_frames it now = encode_motion (u_da (i_cfg it)) (u_sa (i_cfg it)) StopAll.
Print Assumptions C01_final_stop_all_is_reasserted.
(* ... where "the command task takes the newest QUEUE_SIZE_COMMAND objects of a burst" (lastn) is exactly what the
   cursor model of the broadcast channel with the runtime's command loop (Model/Broadcast.v, validated against the real
   Runtime by the C15 check) hands to on_command from a caught-up idle task, for ANY capacity, history and burst *)
Theorem C01_channel_abstraction : forall (A : Type) (cap : nat) (dflt : A) (sent0 pend done : list A) (lags fuel : nat),
  (length pend + 1 <= fuel)%nat ->
  h_done A (s_h A (drain cap dflt fuel (idle (sent0 ++ pend) (length sent0) done lags))) = done ++ lastn cap pend
  /\ h_holding A (s_h A (drain cap dflt fuel (idle (sent0 ++ pend) (length sent0) done lags))) = None.
Proof. exact (@idle_task_takes_the_newest). Qed.
Print Assumptions C01_channel_abstraction.
