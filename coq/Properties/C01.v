(* C01 — Hydraulics stay locked unless the latest motion command says otherwise. *)
From Coq Require Import ZArith List.
Import ListNotations.
Require Import GV.Model.J1939 GV.Model.Governor GV.Model.Hcu GV.Model.Object GV.Model.HcuUnit
  GV.Spec.C02_spec GV.Spec.C01_spec GV.Proofs.C01_proof.
Local Open Scope Z_scope.

Theorem C01 : forall c, c01_wf c = true -> c01_spec_ok c (c01_model c) = true.
Proof. exact c01_holds. Qed.
Check C01 : forall c, c01_wf c = true -> c01_spec_ok c (c01_model c) = true.
Print Assumptions C01.

(* after ANY history, a tick re-sends exactly the encoding of the latest motion command
   (stop-all when there has been none) *)
Theorem C01_reassert : forall u evs,
  hcu_tick u (ctx_after u evs) = encode_motion (u_da u) (u_sa u) (last_motion StopAll evs).
Proof. exact c01_reassert. Qed.
Print Assumptions C01_reassert.

(* engine/control/target/rotator/status commands and every received frame leave the
   re-asserted command unchanged *)
Theorem C01_inert : forall u c,
  (forall o, (forall m, o <> OMotion m) -> tx_last (fst (hcu_trigger u c o)) = tx_last c)
  /\ (forall f, tx_last (r_ctx (hcu_recv u c f)) = tx_last c).
Proof. exact c01_inert. Qed.
Print Assumptions C01_inert.
