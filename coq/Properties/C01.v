(* C01 — Hydraulics stay locked unless the latest motion command says otherwise. *)
From Coq Require Import ZArith List.
Import ListNotations.
Require Import GV.Model.J1939 GV.Model.Governor GV.Model.Hcu GV.Model.Object GV.Model.HcuUnit
  GV.Spec.C02_spec GV.Spec.C01_spec GV.Proofs.C01_proof
  GV.Model.Units GV.Model.Authority GV.Model.Auth_io GV.Model.C01a_io GV.Proofs.C01_auth.
Local Open Scope Z_scope.

Theorem C01 : forall c, c01_wf c = true -> c01_spec_ok c (c01_model c) = true.
Proof. exact c01_holds. Qed.
Check C01 : forall c, c01_wf c = true -> c01_spec_ok c (c01_model c) = true.
Print Assumptions C01.

(* after ANY history, a tick re-sends exactly the encoding of the latest motion command
   (stop-all when there has been none) *)
Theorem C01_reassert : forall u evs,
  hcu_tick u (ctx_after u evs) = encode_motion (u_da u) (u_sa u) (last_motion StopAll evs).
Proof. exact c01_reassert. Qed.
Print Assumptions C01_reassert.

(* engine/control/target/rotator/status commands and every received frame leave the
   re-asserted command unchanged *)
Theorem C01_inert : forall u c,
  (forall o, (forall m, o <> OMotion m) -> tx_last (fst (hcu_trigger u c o)) = tx_last c)
  /\ (forall f, tx_last (r_ctx (hcu_recv u c f)) = tx_last c).
Proof. exact c01_inert. Qed.
Print Assumptions C01_inert.

(* ---- the same through the NetworkAuthority model, for ANY driver configuration and ANY history of
   authority events — cycles, accepted commands whether or not their frames left the socket
   (A01Fail: every write failed), received frames, waits, setup, teardown: each hydraulic-unit
   driver's register holds the most recent ACCEPTED motion command ... ---- *)
Theorem C01_authority_register : forall evs a now cur,
  hcu_inv (a_items a) cur -> hcu_inv (a_items (fst (a01after a now evs))) (last_accepted cur evs).
Proof. exact authority_register. Qed.
Print Assumptions C01_authority_register.
(* ... so that the next cycle re-sends exactly its encoding (the lock frame alone for stop-all) *)
Theorem C01_authority_reasserts : forall addr nm cs evs,
  let a := fst (a01after (auth_new 0 addr nm cs) 0 evs) in
  forall it now, In it (a_items a) -> i_kind it = KHcu ->
    item_tick_frames it now = encode_motion (u_da (i_cfg it)) (u_sa (i_cfg it)) (last_accepted StopAll evs).
Proof. exact authority_reasserts. Qed.
Check C01_authority_reasserts : forall addr nm cs evs,
  let a := fst (a01after (auth_new 0 addr nm cs) 0 evs) in
  forall it now, In it (a_items a) -> i_kind it = KHcu ->
    item_tick_frames it now = encode_motion (u_da (i_cfg it)) (u_sa (i_cfg it)) (last_accepted StopAll evs).
Print Assumptions C01_authority_reasserts.
