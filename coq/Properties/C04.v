(* C04 — Frame boundaries hold: each well-formed frame acts once, nothing else acts. *)
From Coq Require Import ZArith List Bool.
Import ListNotations.
Require Import GV.Gen.Consts GV.Model.Governor GV.Model.Hcu GV.Model.Packets GV.Model.Session
  GV.Spec.C04_spec GV.Proofs.C13_total GV.Proofs.Session_proof.
Local Open Scope Z_scope.

(* for EVERY list of well-formed frames (all 256 type codes, payload lengths 1..1024, any
   payload), EVERY segmentation of the byte stream into chunks and EVERY placement of published
   signals between chunks: the session dispatches exactly the reference decoding of the command
   frames, in order, each once (and the failsafe stop-all iff armed), and survives *)
Theorem C04 : forall s, script_wf s = true -> script_spec_ok s (script_model s) = true.
Proof. exact script_holds. Qed.
Check C04 : forall s, script_wf s = true -> script_spec_ok s (script_model s) = true.
Print Assumptions C04.

(* the outcome does not depend on how the transport splits the bytes nor on signals *)
Theorem C04_segmentation : forall s cuts sigs,
  script_wf s = true -> forallb (fun c => 0 <=? c) cuts = true ->
  let s' := {| sc_frames := sc_frames s; sc_tail := sc_tail s; sc_cuts := cuts; sc_sigs := sigs |} in
  script_spec_ok s' (script_model s') = true.
Proof.
  intros s cuts sigs H Hc s'. apply script_holds. unfold script_wf in *. subst s'. cbn [sc_frames sc_tail sc_cuts].
  apply andb_prop in H as [H _]. rewrite H, Hc. reflexivity.
Qed.
Print Assumptions C04_segmentation.

(* chunk independence of the state machine itself, as an equation *)
Theorem C04_drain_app : forall f1 flags b1 b2 fl' b1' acts1,
  (length b1 < f1)%nat -> drain f1 flags b1 = (Running fl' b1', acts1) ->
  forall f2 f3, (length (b1 ++ b2) < f2)%nat -> (length (b1' ++ b2) < f3)%nat ->
  drain f2 flags (b1 ++ b2) = (let '(st, acts2) := drain f3 fl' (b1' ++ b2) in (st, acts1 ++ acts2)).
Proof. exact drain_app. Qed.
Print Assumptions C04_drain_app.

(* the premise of abstracting from time in this property's model: the code it models waits, polls and gives up
   with exactly the kinds of primitives the model accounts for (codes in Proofs/W_*.v); re-extracted from the source on every run *)
Require Import GV.Gen.Consts GV.Proofs.W_server GV.Proofs.W_protocol.
Theorem C04_time_abstraction : waits_server = (@cons Z 10%Z (@nil Z)) /\ waits_protocol = (@nil Z).
Proof. exact (conj w_server w_protocol). Qed.
Check C04_time_abstraction : waits_server = (@cons Z 10%Z (@nil Z)) /\ waits_protocol = (@nil Z).
Print Assumptions C04_time_abstraction.
