(* C17 — CAN network layer: exact marshalling, 8-byte normalisation, filter semantics. *)
From Coq Require Import ZArith List Bool.
Import ListNotations.
Require Import GV.Model.J1939 GV.Model.CanNet GV.Proofs.C17_proof.
Local Open Scope Z_scope.

Theorem C17_tx_exact : forall f, 0 <= f_id f < 536870912 -> (length (f_data f) <= 8)%nat -> bytes (f_data f) ->
  length (to_can_frame f) = 16%nat
  /\ (exists b0 b1 b2 b3 rest, to_can_frame f = b0 :: b1 :: b2 :: b3 :: rest
        /\ of_le32 b0 b1 b2 b3 = f_id f + 2147483648 /\ 128 <= b3)
  /\ nth 4 (to_can_frame f) 0 = Z.of_nat (length (f_data f))
  /\ of_can_frame (to_can_frame f) = Some f.
Proof. exact tx_exact. Qed.
Print Assumptions C17_tx_exact.

Theorem C17_rx_exact : forall b0 b1 b2 b3 dlc p1 p2 p3 d, bytes [b0; b1; b2; b3] -> 0 <= dlc <= 8 -> length d = 8%nat ->
  exists f, of_can_frame ([b0; b1; b2; b3; dlc; p1; p2; p3] ++ d) = Some f
    /\ f_id (normalise f) = of_le32 b0 b1 b2 b3 mod 536870912
    /\ length (f_data (normalise f)) = 8%nat
    /\ firstn (Z.to_nat dlc) (f_data (normalise f)) = firstn (Z.to_nat dlc) d
    /\ skipn (Z.to_nat dlc) (f_data (normalise f)) = repeat 255 (8 - Z.to_nat dlc).
Proof. exact rx_exact. Qed.
Print Assumptions C17_rx_exact.

Theorem C17_accept : forall items id,
  filter_matches true items id = true <-> (items = [] \/ exists it, In it items /\ item_matches it id = true).
Proof. exact accept_iff. Qed.
Check C17_accept : forall items id,
  filter_matches true items id = true <-> (items = [] \/ exists it, In it items /\ item_matches it id = true).
Print Assumptions C17_accept.

Theorem C17_reject : forall items id,
  filter_matches false items id = true <-> (forall it, In it items -> item_matches it id = false).
Proof. exact reject_iff. Qed.
Print Assumptions C17_reject.

Theorem C17_item : forall it id, item_matches it id = true <->
  (forall p, fi_prio it = Some p -> p = id_priority id)
  /\ (forall g, fi_pgn it = Some g -> g = id_pgn id)
  /\ (forall s, fi_sa it = Some s -> s = id_sa id)
  /\ (forall d, fi_da it = Some d -> id_da id = Some d).
Proof. exact item_iff. Qed.
Print Assumptions C17_item.

Theorem C17_da_never_matches_pdu2 : forall it id d,
  fi_da it = Some d -> id_is_pdu1 id = false -> item_matches it id = false.
Proof. exact da_never_matches_pdu2. Qed.
Print Assumptions C17_da_never_matches_pdu2.

(* the premise of abstracting from time in this property's model: the code it models waits, polls and gives up
   with exactly the kinds of primitives the model accounts for (codes in Proofs/W_*.v); re-extracted from the source on every run *)
Require Import GV.Gen.Consts GV.Proofs.W_can GV.Proofs.W_net.
Theorem C17_time_abstraction : waits_can = (@nil Z) /\ waits_net = (@nil Z).
Proof. exact (conj w_can w_net). Qed.
Check C17_time_abstraction : waits_can = (@nil Z) /\ waits_net = (@nil Z).
Print Assumptions C17_time_abstraction.
