(* C14 — Session handshake and signal streaming are faithful. *)
From Coq Require Import ZArith List Bool Arith.
Import ListNotations.
Require Import GV.Gen.Consts GV.Model.Governor GV.Model.Hcu GV.Model.Packets GV.Model.Session GV.Model.Broadcast GV.Model.Stream
  GV.Proofs.C13_roundtrip GV.Proofs.C14_proof.
Local Open Scope Z_scope.

Theorem C14_handshake : forall flags payload f n,
  recv_packet type_session payload = DOk (PSession f n) -> handle flags type_session payload = Some (f, [AInstance]).
Proof. exact handshake_one_instance. Qed.
Print Assumptions C14_handshake.

(* after ANY history of publications a streaming session that runs receives exactly the retained
   signals from max(its cursor, tail - 16), in publication order; a non-streaming one nothing *)
Theorem C14_stream : forall fuel bus flags c,
  (c <= length bus)%nat -> (2 * (length bus - c) + 2 <= fuel)%nat ->
  drain_signals fuel bus flags c =
  (length bus, if has_flag flags session_mode_stream then map ASignal (skipn (Nat.max c (length bus - sigcap)) bus) else []).
Proof. exact drain_signals_spec. Qed.
Check C14_stream : forall fuel bus flags c,
  (c <= length bus)%nat -> (2 * (length bus - c) + 2 <= fuel)%nat ->
  drain_signals fuel bus flags c =
  (length bus, if has_flag flags session_mode_stream then map ASignal (skipn (Nat.max c (length bus - sigcap)) bus) else []).
Print Assumptions C14_stream.

Theorem C14_no_overflow_complete : forall fuel bus flags c,
  (c <= length bus)%nat -> (2 * (length bus - c) + 2 <= fuel)%nat -> has_flag flags session_mode_stream = true ->
  (length bus - c <= sigcap)%nat -> snd (drain_signals fuel bus flags c) = map ASignal (skipn c bus).
Proof. exact stream_complete. Qed.
Print Assumptions C14_no_overflow_complete.

Theorem C14_lag_loses_oldest_block : forall fuel bus flags c,
  (c <= length bus)%nat -> (2 * (length bus - c) + 2 <= fuel)%nat -> has_flag flags session_mode_stream = true ->
  (sigcap < length bus - c)%nat -> snd (drain_signals fuel bus flags c) = map ASignal (skipn (length bus - sigcap) bus).
Proof. exact lag_loses_oldest_block. Qed.
Print Assumptions C14_lag_loses_oldest_block.

Theorem C14_sessions_independent : forall bus ss sigs k s,
  nth_error ss k = Some s ->
  nth_error (snd (op_step bus ss (OPublish sigs))) k =
  Some (if ss_open s then
          match ss_state s with
          | Running flags _ => snd (drain_signals (2 * length (bus ++ sigs) + 2) (bus ++ sigs) flags (ss_cursor s))
          | Crashed => [] end
        else []).
Proof. exact sessions_independent. Qed.
Print Assumptions C14_sessions_independent.

(* each forwarded signal is one frame that decodes to the same object (C13) *)
Theorem C14_frames_decode : forall p, pwf p -> Packets.run (dec_payload (ptype p)) (enc_payload p) = DOk p.
Proof. exact roundtrip. Qed.
Print Assumptions C14_frames_decode.

Theorem C14_compat : forall ma mi, is_compatible ma mi = true <-> ma = version_major /\ mi = version_minor.
Proof. exact compat_iff. Qed.
Print Assumptions C14_compat.

(* the premise of abstracting from time in this property's model: the code it models waits, polls and gives up
   with exactly the kinds of primitives the model accounts for (codes in Proofs/W_*.v); re-extracted from the source on every run *)
Require Import GV.Gen.Consts GV.Proofs.W_server GV.Proofs.W_protocol GV.Proofs.W_client.
Theorem C14_time_abstraction : waits_server = (@cons Z 10%Z (@nil Z)) /\ waits_protocol = (@nil Z) /\ waits_client = (@nil Z).
Proof. exact (conj w_server (conj w_protocol w_client)). Qed.
Check C14_time_abstraction : waits_server = (@cons Z 10%Z (@nil Z)) /\ waits_protocol = (@nil Z) /\ waits_client = (@nil Z).
Print Assumptions C14_time_abstraction.
