(* C02 — Motion commands reach the CAN bus bit-exact and correctly addressed. *)
From Coq Require Import ZArith List.
Import ListNotations.
Require Import GV.Model.J1939 GV.Model.Hcu GV.Spec.C02_spec GV.Proofs.C02_proof.
Local Open Scope Z_scope.

Theorem C02 : forall c, c02_wf c = true -> c02_spec_ok c (c02_model c) = true.
Proof. exact c02_holds. Qed.
Check C02 : forall c, c02_wf c = true -> c02_spec_ok c (c02_model c) = true.
Print Assumptions C02.

(* the slot array holds, for every actuator, the value of the LAST entry naming it
   (duplicates, any order, any length) *)
Theorem C02_last_duplicate_wins : forall cs a, slots_of cs a = last_value cs a.
Proof. exact slots_of_last. Qed.
Print Assumptions C02_last_duplicate_wins.

Theorem C02_config_frames : forall da sa, 0 <= da < 256 -> 0 <= sa < 256 ->
  encode_motion da sa StopAll = [ {| f_id := exact_id 3 45824 da sa; f_data := [90; 67; 255; 0; 255] |} ]
  /\ encode_motion da sa ResumeAll = [ {| f_id := exact_id 3 45824 da sa; f_data := [90; 67; 255; 1; 255] |} ]
  /\ encode_motion da sa ResetAll = [ {| f_id := exact_id 3 45824 da sa; f_data := [90; 67; 255; 255; 1] |} ].
Proof. exact c02_stop_frame. Qed.
Print Assumptions C02_config_frames.

Theorem C02_slot_roundtrip : forall v, -32768 <= v < 32768 ->
  let lo := (v mod 65536) mod 256 in let hi := (v mod 65536) / 256 in
  0 <= lo < 256 /\ 0 <= hi < 256 /\ of_le16 lo hi = v /\ ((lo = 255 /\ hi = 255) <-> v = -1).
Proof. exact le16_roundtrip. Qed.
Print Assumptions C02_slot_roundtrip.

Theorem C02_addressing : forall pgn da sa,
  (pgn = 40960 \/ pgn = 41216 \/ pgn = 45824) -> 0 <= da < 256 -> 0 <= sa < 256 ->
  let id := id_build 3 pgn da sa in
  id_priority id = 3 /\ id_pgn id = pgn /\ id_da id = Some da /\ id_sa id = sa.
Proof. intros pgn da sa Hp Hd Hs. rewrite id_build_pdu1 by assumption. exact (exact_id_fields pgn da sa Hp Hd Hs). Qed.
Print Assumptions C02_addressing.

(* the premise of abstracting from time in this property's model: the code it models waits, polls and gives up
   with exactly the kinds of primitives the model accounts for (codes in Proofs/W_*.v); re-extracted from the source on every run *)
Require Import GV.Gen.Consts GV.Proofs.W_authority GV.Proofs.W_hydraulic GV.Proofs.W_net GV.Proofs.W_can.
Theorem C02_time_abstraction : waits_authority = (@nil Z) /\ waits_hydraulic = (@nil Z) /\ waits_net = (@nil Z) /\ waits_can = (@nil Z).
Proof. exact (conj w_authority (conj w_hydraulic (conj w_net w_can))). Qed.
Check C02_time_abstraction : waits_authority = (@nil Z) /\ waits_hydraulic = (@nil Z) /\ waits_net = (@nil Z) /\ waits_can = (@nil Z).
Print Assumptions C02_time_abstraction.
