(* C07 — Engine governor keeps every decision inside the safe envelope.
   This file contains only the property theorems. *)
From Coq Require Import ZArith.
Require Import GV.Model.Outcome GV.Model.Governor GV.Spec.C07_spec GV.Proofs.C07_proof.
Local Open Scope Z_scope.

Theorem C07 : forall c, c07_wf c = true -> c07_spec_ok c (c07_model c) = true.
Proof. exact c07_holds. Qed.
Check C07 : forall c, c07_wf c = true -> c07_spec_ok c (c07_model c) = true.
Print Assumptions C07.

Theorem C07_envelope : forall idle max sig cmd rpm a e,
  idle <= max -> next_state idle max sig cmd rpm a = Ok e ->
  idle <= e_rpm e <= max
  /\ (e_state e = Request -> sig = Request)
  /\ (e_state e = Starting ->
        ((sig = NoRequest /\ (cmd = Starting \/ cmd = Request)) \/ sig = Starting) /\ a <> Old)
  /\ (sig = NoRequest -> cmd = NoRequest \/ cmd = Stopping -> e_state e = NoRequest)
  /\ (sig = Request -> cmd = NoRequest \/ cmd = Stopping -> e_state e = Stopping)
  /\ (sig = Request -> cmd = Starting \/ cmd = Request ->
        e_state e = Request /\ e_rpm e = ref_clamp idle max rpm)
  /\ (sig = Stopping -> e_state e = Stopping).
Proof. exact c07_envelope. Qed.
Print Assumptions C07_envelope.

Theorem C07_never_panics : forall idle max sig cmd rpm a,
  idle <= max -> next_state idle max sig cmd rpm a <> Panic.
Proof. exact c07_never_panics. Qed.
Print Assumptions C07_never_panics.

(* the premise of abstracting from time in this property's model: the code it models waits, polls and gives up
   with exactly the kinds of primitives the model accounts for (codes in Proofs/W_*.v); re-extracted from the source on every run *)
Require Import GV.Gen.Consts GV.Proofs.W_governor.
Theorem C07_time_abstraction : waits_governor = (@cons Z 7%Z (@nil Z)).
Proof. exact w_governor. Qed.
Check C07_time_abstraction : waits_governor = (@cons Z 7%Z (@nil Z)).
Print Assumptions C07_time_abstraction.

(* the model the theorems above speak about is the source: Governor::next_state as translated from
   driver/governor.rs on every run (arm table governor_arms in Gen/Consts.v) computes exactly the model function *)
Require Import GV.Proofs.C07_source.
Theorem C07_model_is_translated_source : forall idle max sig cmd cmd_rpm a,
  GV.Gen.Consts.governor_translated = true ->
  next_state_src idle max sig cmd cmd_rpm a = Some (next_state idle max sig cmd cmd_rpm a).
Proof. exact next_state_is_the_source. Qed.
Check C07_model_is_translated_source : forall idle max sig cmd cmd_rpm a,
  GV.Gen.Consts.governor_translated = true ->
  next_state_src idle max sig cmd cmd_rpm a = Some (next_state idle max sig cmd cmd_rpm a).
Print Assumptions C07_model_is_translated_source.
