(* C03 — Failsafe: losing a failsafe session always stops motion. *)
From Coq Require Import ZArith List Bool.
Import ListNotations.
Require Import GV.Gen.Consts GV.Model.Governor GV.Model.Hcu GV.Model.Packets GV.Model.Session
  GV.Spec.C04_spec GV.Proofs.C13_total GV.Proofs.Session_proof.
Local Open Scope Z_scope.

(* for every command sequence, every byte offset k at which the client dies inside the next
   frame (header or payload; k = 0 is "between frames"), every chunking and signal placement:
   the commands are those of the complete frames followed by stop-all iff the last successfully
   decoded Session frame carried the failsafe flag *)
Theorem C03 : forall s, script_wf s = true -> script_spec_ok s (script_model s) = true.
Proof. exact script_holds. Qed.
Check C03 : forall s, script_wf s = true -> script_spec_ok s (script_model s) = true.
Print Assumptions C03.

(* the arming is that of the last Session frame that DECODES: a failed upgrade changes nothing *)
Theorem C03_bad_upgrade_keeps_arming : forall flags f,
  w_type f = type_session ->
  (forall fl n, recv_packet (w_type f) (w_payload f) <> DOk (PSession fl n)) ->
  frame_flags flags f = flags.
Proof.
  intros flags f Ht H. unfold frame_flags. rewrite Ht, Z.eqb_refl. rewrite <- Ht.
  destruct (recv_packet (w_type f) (w_payload f)) as [[]| |]; try reflexivity.
  exfalso. eapply H. reflexivity.
Qed.
Print Assumptions C03_bad_upgrade_keeps_arming.

(* a session that never armed dispatches no stop-all of its own *)
Theorem C03_unarmed_silent : forall fs, armed fs = false -> expected_cmds fs = flat_map frame_cmd fs.
Proof. intros fs H. unfold expected_cmds. rewrite H. apply app_nil_r. Qed.
Print Assumptions C03_unarmed_silent.

Theorem C03_armed_stops : forall fs, armed fs = true ->
  expected_cmds fs = flat_map frame_cmd fs ++ [PMotion StopAll].
Proof. intros fs H. unfold expected_cmds. rewrite H. reflexivity. Qed.
Print Assumptions C03_armed_stops.

(* the premise of abstracting from time in this property's model: the code it models waits, polls and gives up
   with exactly the kinds of primitives the model accounts for (codes in Proofs/W_*.v); re-extracted from the source on every run *)
Require Import GV.Gen.Consts GV.Proofs.W_server GV.Proofs.W_protocol.
Theorem C03_time_abstraction : waits_server = (@cons Z 10%Z (@nil Z)) /\ waits_protocol = (@nil Z).
Proof. exact (conj w_server w_protocol). Qed.
Check C03_time_abstraction : waits_server = (@cons Z 10%Z (@nil Z)) /\ waits_protocol = (@nil Z).
Print Assumptions C03_time_abstraction.
