(* C05 — No byte sequence from a client can crash the daemon or a session. *)
From Coq Require Import ZArith List Bool.
Import ListNotations.
Require Import GV.Gen.Consts GV.Model.Governor GV.Model.Hcu GV.Model.Packets GV.Model.Session
  GV.Spec.C04_spec GV.Proofs.C13_total GV.Proofs.Session_proof.
Local Open Scope Z_scope.

(* for EVERY sequence of byte chunks (bytes 0..255, any content, any length), published signals
   and end-of-connection events, the session task never reaches a panic point *)
Theorem C05 : forall evs st, st_wfb st -> Forall ev_wfb evs -> st_wfb (fst (srun st evs)).
Proof. exact session_never_crashes. Qed.
Check C05 : forall evs st, st_wfb st -> Forall ev_wfb evs -> st_wfb (fst (srun st evs)).
Print Assumptions C05.

Theorem C05_from_start : forall evs, Forall ev_wfb evs -> fst (srun session0 evs) <> Crashed.
Proof.
  intros evs H. pose proof (session_never_crashes evs session0 ltac:(constructor) H) as W.
  destruct (fst (srun session0 evs)); [discriminate | contradiction].
Qed.
Print Assumptions C05_from_start.

(* every decoder reachable from a client: any type code, any declared length, any payload *)
Theorem C05_recv_packet_total : forall t payload, wfb payload -> recv_packet t payload <> DPanic.
Proof. exact recv_packet_total. Qed.
Print Assumptions C05_recv_packet_total.

(* the normal termination path still applies the failsafe: the end event acts on the flags the
   session holds, whatever came before *)
Theorem C05_end_applies_failsafe : forall flags buf,
  snd (sstep (Running flags buf) EEnd) =
  if has_flag flags session_mode_failsafe then [ACmd (PMotion StopAll)] else [].
Proof. reflexivity. Qed.
Print Assumptions C05_end_applies_failsafe.

(* the premise of abstracting from time in this property's model: the code it models waits, polls and gives up
   with exactly the kinds of primitives the model accounts for (codes in Proofs/W_*.v); re-extracted from the source on every run *)
Require Import GV.Gen.Consts GV.Proofs.W_server GV.Proofs.W_protocol.
Theorem C05_time_abstraction : waits_server = (@cons Z 10%Z (@nil Z)) /\ waits_protocol = (@nil Z).
Proof. exact (conj w_server w_protocol). Qed.
Check C05_time_abstraction : waits_server = (@cons Z 10%Z (@nil Z)) /\ waits_protocol = (@nil Z).
Print Assumptions C05_time_abstraction.
